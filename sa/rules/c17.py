"""C17 - database: password-gated connections, connection-gated queries, restorable data (DESIGN.md section 3, C17)."""
from __future__ import annotations

import ast
import itertools
from typing import Callable, Dict, List, Optional, Sequence, Set, Tuple

from ..absval import UNKNOWN, Evaluator, walk
from ..astutil import call_name, calls_in, kwarg, store_targets, unparse, walk_shallow
from ..cfg import CFG, CNode, Edge, LocalDefs, expand_test, path_text
from ..index import AnalysisError, ClassInfo, FuncInfo, Index
from ..inventory import call_sites, recv_class, stores_to_attr
from ..report import Ctx
from ..stateflow import state_flow
from .common import edge_state_set, enum_member, must_pass, node_calls, nodes_calling

EXPLANATION = (
    "Static analysis (ast, per-function CFG with guard edges, exact evaluation of the connect status ladder over the "
    "finite product of service state x health state x password match x capacity answer, store and call inventories) "
    "of the database service and client. Decided: R17.1 DatabaseService._process_connect reaches add_connection only "
    "past the service-RUNNING edge and the `configured password == supplied password` edge, the extracted status "
    "table answers 200 only for RUNNING AND password-equal AND add_connection accepted (404 when not running, 401 for a "
    "wrong password on a healthy service, never 200 when add_connection refuses), the `response` flag is "
    "status == 200, IOSoftware.add_connection stores a connection only on the len(_connections) < max_sessions edge, "
    "and Service/Application._can_perform_action demand RUNNING on top of the node-ON test; R17.2 "
    "DatabaseService.receive reaches _process_connect/_process_sql/terminate_connection only past "
    "_can_perform_action, _process_sql only on the `connection_id in self.connections` edge for the very id it "
    "passes on, terminate_connection only for a known id whose recorded address equals the sender's; R17.3 in "
    "_process_sql the db file's health is written exactly on the DELETE edge (COMPROMISED) and the ENCRYPT edge "
    "(CORRUPT), a SELECT answers 200 with data only when the file health is GOOD and never answers 200 for "
    "COMPROMISED data; R17.4 every DatabaseClient entry point (execute, query, check_connection, get_new_connection, "
    "_disconnect, receive) acts only past _can_perform_action, queries need an established native/active connection, "
    "a client connection object is created only for a `response is True` answer, a query counts as successful only "
    "for status 200, and _query/_connect are called from those entry points only; R17.5 the configured password and "
    "the connection table have no writer outside the password setter resp. add/terminate/clear_connections; R17.6 "
    "backup_database/restore_backup touch the FTP client and the file system only past _can_perform_action and the "
    "post-fix restore runs only when the fixing countdown has ended; R17.7 (contradiction rule) an item whose `.deleted` flag a "
    "function branches on comes from a look-up that can return deleted items (include_deleted=True, also through a "
    "property), and restore_backup has such a branch - otherwise the branch that restores a deleted database file is dead; R17.8 (a) every FTP client method that inspects the reply's "
    "status code returns True only with the code known to be OK (enum-state dataflow over {NOT_FOUND, OK, ERROR, unset}), (b) no DatabaseClient "
    "branch decides from the client-wide `connected` flag while that flag is kept by constant stores. NOT decided: that a restore of a healthy backup "
    "returns the file to GOOD (health round trip through FTP and the file system), capacity boundaries under "
    "interleaved connects/disconnects, ACL/route blocking - these are behavioural."
)
TECHNIQUE = "static: exact status-ladder truth table of _process_connect, CFG must-pass for query/terminate gating, query-to-health-effect extraction, who-may-write, look-up/deleted-branch contradiction check"
ASSUMPTIONS = [
    "payloads reach the service only through DatabaseService.receive (SoftwareManager port mapping)",
    "no setattr/exec writes to the connection table or the configured password (dynamic-feature census)",
    "uuid4 connection ids are unguessable (the sql branch does not compare the sender address)",
]

DBS = "src/primaite/simulator/system/services/database/database_service.py"
DBC = "src/primaite/simulator/system/applications/database_client.py"


# ------------------------------------------------------------------------------------------------ small normal forms
def _is_none(e: ast.AST) -> bool:
    return isinstance(e, ast.Constant) and e.value is None


def cond_of(e: Edge) -> Optional[Tuple[ast.AST, bool]]:
    if e.label and e.label[0] == "cond":
        return e.label[1], e.label[2]
    return None


def truthy_polarity(expr: ast.AST, is_subj: Callable[[ast.AST], bool]) -> Optional[bool]:
    """True if `expr` holds exactly when the subject is present (truthy / not None), False if exactly when absent."""
    if is_subj(expr):
        return True
    if isinstance(expr, ast.Compare) and len(expr.ops) == 1:
        op, l, r = expr.ops[0], expr.left, expr.comparators[0]
        if (_is_none(r) and is_subj(l)) or (_is_none(l) and is_subj(r)):
            if isinstance(op, (ast.IsNot, ast.NotEq)):
                return True
            if isinstance(op, (ast.Is, ast.Eq)):
                return False
    return None


def bool_polarity(expr: ast.AST, is_subj: Callable[[ast.AST], bool]) -> Optional[bool]:
    if is_subj(expr):
        return True
    if isinstance(expr, ast.Compare) and len(expr.ops) == 1:
        op, l, r = expr.ops[0], expr.left, expr.comparators[0]
        for s, c in ((l, r), (r, l)):
            if is_subj(s) and isinstance(c, ast.Constant) and isinstance(c.value, bool):
                if isinstance(op, (ast.Is, ast.Eq)):
                    return c.value
                if isinstance(op, (ast.IsNot, ast.NotEq)):
                    return not c.value
    return None


def params_of(fn: FuncInfo) -> List[str]:
    a = fn.node.args
    ps = [x.arg for x in list(a.posonlyargs) + list(a.args)]
    if ps and ps[0] in ("self", "cls"):
        ps = ps[1:]
    return ps + [x.arg for x in a.kwonlyargs]


def can_edge(ld: LocalDefs) -> Callable[[Edge], bool]:
    """Edge on which `self._can_perform_action()` (or the base class `super().receive(...)`, which returns it) held."""

    def pred(e: Edge) -> bool:
        c = cond_of(e)
        if c is None or not c[1]:
            return False
        x = ld.expand(c[0])
        if not isinstance(x, ast.Call):
            return False
        f = unparse(x.func)
        return f in ("self._can_perform_action", "super()._can_perform_action", "super().receive")

    return pred


def payload_key(expr: ast.AST, ld: Optional[LocalDefs] = None) -> Optional[Tuple[str, str]]:
    """`p["k"]` / `p.get("k")` (possibly through a single-assignment local) -> (p, k)."""
    x = ld.expand(expr) if ld is not None else expr
    if isinstance(x, ast.Subscript) and isinstance(x.slice, ast.Constant) and isinstance(x.slice.value, str):
        return unparse(x.value), x.slice.value
    if isinstance(x, ast.Call) and isinstance(x.func, ast.Attribute) and x.func.attr == "get" and x.args \
            and isinstance(x.args[0], ast.Constant) and isinstance(x.args[0].value, str):
        return unparse(x.func.value), x.args[0].value
    return None


def stmt_stores(n: CNode) -> List[Tuple[ast.AST, Optional[ast.AST], str]]:
    if n.kind == "stmt" and isinstance(n.ast, (ast.Assign, ast.AugAssign, ast.AnnAssign, ast.Delete)):
        return store_targets(n.ast)
    return []


def real_nodes(g: CFG) -> List[CNode]:
    return [n for n in g.nodes if n.kind not in ("entry", "exit", "raise")]


def dict_of(e: Optional[ast.AST], ld: LocalDefs) -> Optional[Dict[str, ast.AST]]:
    if e is None:
        return None
    x = ld.expand(e)
    if isinstance(x, ast.Dict):
        return {k.value: v for k, v in zip(x.keys, x.values) if isinstance(k, ast.Constant) and isinstance(k.value, str)}
    return None


def gate(ctx: Ctx, rid: str, fn: FuncInfo, g: CFG, sinks: List[CNode], pred: Callable[[Edge], bool], what: str, gname: str) -> None:
    if not sinks:
        raise AnalysisError(f"{rid}: {fn.short} has no `{what}` - the anchor moved")
    w = must_pass(g, sinks, pred)
    ctx.record(rid, ctx.key(fn, f"{what} only past the {gname}"), fn.loc(sinks[0].ast), w is None,
               f"{what} is reachable only past the {gname}" if w is None else f"{what} reachable without the {gname}", w)


# ------------------------------------------------------------------------------------------------ R17.1
def r17_1(ctx: Ctx, svc_uni: Dict[str, object], health_uni: Dict[str, object]) -> None:
    ix = ctx.ix
    ctx.rule("R17.1", "_process_connect: add_connection only past the RUNNING edge and the password-equal edge; status "
                      "table: 200 only for RUNNING & password equal & add_connection accepted, 404 when not running, "
                      "401 for a wrong password, not 200 when add_connection refuses; response == (status == 200); "
                      "add_connection stores only below max_sessions; _can_perform_action demands RUNNING")
    fn = ix.method("DatabaseService._process_connect")
    g = CFG(fn.node)
    ld = LocalDefs(fn.node)
    ps = params_of(fn)
    if "password" not in ps:
        raise AnalysisError("R17.1: _process_connect no longer has a `password` parameter")
    STORED = ("self.config.db_password", "self.password")

    def pw_edge(e: Edge) -> bool:
        c = cond_of(e)
        if c is None:
            return False
        x = ld.expand(c[0])
        if isinstance(x, ast.Compare) and len(x.ops) == 1 and isinstance(x.ops[0], (ast.Eq, ast.NotEq)):
            a, b = unparse(x.left), unparse(x.comparators[0])
            if (a in STORED and b == "password") or (b in STORED and a == "password"):
                return c[1] == isinstance(x.ops[0], ast.Eq)
        return False

    def running_edge(e: Edge) -> bool:
        es = edge_state_set(e, ["operating_state"], set(svc_uni), ld)
        return es is not None and es[0] == "self" and set(es[1]) <= {"RUNNING"}

    adds = nodes_calling(g, ["add_connection"])
    gate(ctx, "R17.1", fn, g, adds, pw_edge, "add_connection", "password-equal edge")
    gate(ctx, "R17.1", fn, g, adds, running_edge, "add_connection", "service-RUNNING edge")
    add_calls = [c for n in adds for c in node_calls(n) if call_name(c) == "add_connection"]
    # exact status table
    rows: List[Tuple[str, str, bool, bool, object, object, List[str]]] = []
    svc_obj = {m: ("svc", m) for m in svc_uni}
    hl_obj = {m: ("health", m) for m in health_uni}
    for s, h, pw_ok, add_ok in itertools.product(sorted(svc_uni), sorted(health_uni), (True, False), (True, False)):
        env: Dict[str, object] = {"self.operating_state": svc_obj[s], "self.health_state_actual": hl_obj[h],
                                  "password": "pw" if pw_ok else "other"}
        for st in STORED:
            env[st] = "pw"
        for m in svc_uni:
            env[f"ServiceOperatingState.{m}"] = svc_obj[m]
        for m in health_uni:
            env[f"SoftwareHealthState.{m}"] = hl_obj[m]
        for c in add_calls:
            env[unparse(c)] = add_ok
        ev = Evaluator(env, ld)
        outcome, node, trace = walk(g, ev)
        if outcome != "return":
            raise AnalysisError(f"R17.1: cannot follow _process_connect for ({s},{h},pw={pw_ok},add={add_ok}): {outcome} at "
                                f"{unparse(node.ast)[:60] if node is not None else '?'}")
        d = dict_of(node.ast.value, ld)
        if d is None or "status_code" not in d:
            raise AnalysisError("R17.1: _process_connect does not return a dict literal with a status_code")
        status = ev.ev(d["status_code"])
        resp = ev.ev(d["response"]) if "response" in d else UNKNOWN
        if status is UNKNOWN:
            raise AnalysisError("R17.1: status_code of _process_connect is not a constant on some row")
        rows.append((s, h, pw_ok, add_ok, status, resp, trace))
    ctx.count("R17.1:status table rows", len(rows))

    def rec(pattern: str, bad: List, good_text: str) -> None:
        ctx.record("R17.1", ctx.key(fn, pattern), fn.loc(), not bad,
                   good_text if not bad else f"violated for (service,health,password_ok,add_ok,status)={bad[0][:5]}",
                   bad[0][6] if bad else None)

    rec("status 200 only if RUNNING and password equal and add_connection accepted",
        [r for r in rows if r[4] == 200 and not (r[0] == "RUNNING" and r[2] and r[3])],
        f"{len(rows)}-row table: every 200 row has service RUNNING, matching password and an accepted add_connection")
    rec("service not RUNNING answers 404", [r for r in rows if r[0] != "RUNNING" and r[4] != 404],
        "every row with the service not RUNNING answers 404")
    rec("wrong password is never 200 and is 401 on a healthy running service",
        [r for r in rows if not r[2] and (r[4] == 200 or (r[0] == "RUNNING" and r[1] == "GOOD" and r[4] != 401))],
        "no wrong-password row is 200; RUNNING/GOOD with a wrong password answers 401")
    rec("refused add_connection is not 200",
        [r for r in rows if r[0] == "RUNNING" and r[2] and not r[3] and r[4] == 200],
        "rows where add_connection refuses (capacity / duplicate) do not answer 200")
    rec("healthy running service with the right password answers 200",
        [r for r in rows if r[0] == "RUNNING" and r[1] == "GOOD" and r[2] and r[3] and r[4] != 200],
        "RUNNING/GOOD/right password/accepted answers 200")
    rec("response flag is status == 200", [r for r in rows if r[5] is UNKNOWN or bool(r[5]) != (r[4] == 200)],
        "the `response` field equals (status_code == 200) on every row")
    codes = sorted({r[4] for r in rows})
    rec("only documented status codes", [r for r in rows if r[4] not in (200, 401, 404, 500, 503)],
        f"codes produced: {codes}")
    # capacity test in add_connection
    dbs = ix.cls("DatabaseService")
    ac = ix.find_method(dbs, "add_connection")
    if ac is None:
        raise AnalysisError("R17.1: add_connection not found along DatabaseService's MRO")
    ag = CFG(ac.node)
    ald = LocalDefs(ac.node)

    def below_capacity(e: Edge) -> bool:
        c = cond_of(e)
        if c is None or "max_sessions" not in unparse(ald.expand(c[0])):
            return False
        tab = []
        for n in (0, 1, 2):
            v = Evaluator({"self._connections": {i: i for i in range(n)}, "self.connections": {i: i for i in range(n)},
                           "self.max_sessions": 1}, ald).ev(c[0])
            if v is UNKNOWN:
                raise AnalysisError(f"R17.1: capacity test `{unparse(c[0])[:60]}` cannot be evaluated as an order relation")
            tab.append(bool(v) == c[1])
        return tuple(tab) == (True, False, False)

    stores = [n for n in real_nodes(ag) if any(
        isinstance(t, ast.Subscript) and unparse(t.value) == "self._connections" and k != "del" for t, v, k in stmt_stores(n))]
    gate(ctx, "R17.1", ac, ag, stores, below_capacity, "store into self._connections", "len(_connections) < max_sessions edge")
    trues = [n for n in real_nodes(ag) if isinstance(n.ast, ast.Return) and isinstance(n.ast.value, ast.Constant)
             and n.ast.value.value is True]
    for n in trues:
        w = None if not stores else ag.path_avoiding([n], lambda e: False, blocked_nodes={s.id for s in stores})
        ctx.record("R17.1", ctx.key(ac, "answers True only after storing the connection"), ac.loc(n.ast), w is None,
                   "`return True` is reachable only through the store" if w is None else "True without a stored connection",
                   path_text(w))
    # _can_perform_action of services and applications
    for spec in ("Service._can_perform_action", "Application._can_perform_action"):
        f = ix.method(spec)
        fg = CFG(f.node)
        fld = LocalDefs(f.node)
        rets = [n for n in real_nodes(fg) if isinstance(n.ast, ast.Return) and not (
            isinstance(n.ast.value, ast.Constant) and n.ast.value.value is False)]
        uni = set(svc_uni) if spec.startswith("Service") else set(ix.enum_members(ix.cls("ApplicationOperatingState")))

        def run_edge(e: Edge) -> bool:
            es = edge_state_set(e, ["operating_state"], uni, fld)
            return es is not None and es[0] == "self" and set(es[1]) <= {"RUNNING"}

        def super_edge(e: Edge) -> bool:
            c = cond_of(e)
            return bool(c and c[1] and isinstance(c[0], ast.Call) and unparse(c[0].func) == "super()._can_perform_action")

        gate(ctx, "R17.1", f, fg, rets, run_edge, "a non-False answer", "operating_state RUNNING edge")
        gate(ctx, "R17.1", f, fg, rets, super_edge, "a non-False answer", "node-is-ON test of IOSoftware")
        if fg.falls_through:
            ctx.fail("R17.1", ctx.key(f, "every path returns"), f.loc(), "a path falls off the end")


# ------------------------------------------------------------------------------------------------ R17.2
def r17_2(ctx: Ctx) -> None:
    ix = ctx.ix
    ctx.rule("R17.2", "DatabaseService.receive: _process_connect / _process_sql / terminate_connection only past "
                      "_can_perform_action; _process_sql only on the `id in self.connections` edge for the id it hands "
                      "on; terminate_connection only for a known id whose recorded address equals the sender's; "
                      "`connections` is a view of `_connections`")
    fn = ix.method("DatabaseService.receive")
    g = CFG(fn.node)
    ld = LocalDefs(fn.node)
    can = can_edge(ld)

    def known_edge_for(key: Optional[Tuple[str, str]]) -> Callable[[Edge], bool]:
        def pred(e: Edge) -> bool:
            c = cond_of(e)
            if c is None:
                return False
            x = c[0]
            if isinstance(x, ast.Compare) and len(x.ops) == 1 and isinstance(x.ops[0], (ast.In, ast.NotIn)) \
                    and unparse(x.comparators[0]) in ("self.connections", "self._connections"):
                return payload_key(x.left, ld) == key and key is not None and c[1] == isinstance(x.ops[0], ast.In)
            return False

        return pred

    for name in ("_process_connect", "_process_sql", "terminate_connection"):
        gate(ctx, "R17.2", fn, g, nodes_calling(g, [name]), can, name, "_can_perform_action edge")
    for n in nodes_calling(g, ["_process_sql"]):
        c = next(c for c in node_calls(n) if call_name(c) == "_process_sql")
        cid = kwarg(c, "connection_id", 2)
        key = payload_key(cid, ld) if cid is not None else None
        if key is None:
            raise AnalysisError(f"R17.2: connection id handed to _process_sql (`{unparse(cid)[:40]}`) is not a payload field")
        gate(ctx, "R17.2", fn, g, [n], known_edge_for(key), "_process_sql", f"`{key[0]}[{key[1]!r}] in self.connections` edge")
        q = kwarg(c, "query", 0)
        ok = q is not None and payload_key(q, ld) is not None and payload_key(q, ld)[0] == key[0]
        ctx.record("R17.2", ctx.key(fn, "the query run is the one in the payload"), fn.loc(n.ast), ok, f"query={unparse(q)[:40]}")
    for n in nodes_calling(g, ["terminate_connection"]):
        c = next(c for c in node_calls(n) if call_name(c) == "terminate_connection")
        cid = kwarg(c, "connection_id", 0)
        key = payload_key(cid, ld) if cid is not None else None
        if key is None:
            raise AnalysisError("R17.2: connection id handed to terminate_connection is not a payload field")
        gate(ctx, "R17.2", fn, g, [n], known_edge_for(key), "terminate_connection", "known-connection-id edge")

        def same_sender(e: Edge) -> bool:
            cc = cond_of(e)
            if cc is None:
                return False
            x = cc[0]
            if isinstance(x, ast.Compare) and len(x.ops) == 1 and isinstance(x.ops[0], (ast.Eq, ast.NotEq)):
                sides = [unparse(ld.expand(x.left)), unparse(ld.expand(x.comparators[0]))]
                has_rec = any("self.connections[" in s and "ip_address" in s for s in sides)
                has_src = any("src_ip_address" in s for s in sides)
                return has_rec and has_src and cc[1] == isinstance(x.ops[0], ast.Eq)
            return False

        gate(ctx, "R17.2", fn, g, [n], same_sender, "terminate_connection", "recorded-address == sender-address edge")
    cp = ix.find_method(ix.cls("DatabaseService"), "connections")
    if cp is None or not cp.is_property:
        raise AnalysisError("R17.2: `connections` is no longer a property along DatabaseService's MRO")
    rets = [n for n in walk_shallow(cp.node) if isinstance(n, ast.Return)]
    ok = bool(rets) and all(r.value is not None and "self._connections" in unparse(r.value) for r in rets)
    ctx.record("R17.2", ctx.key(cp, "connections is a view of _connections"), cp.loc(), ok,
               f"returns {unparse(rets[0].value) if rets else '?'}")
    if g.falls_through:
        ctx.fail("R17.2", ctx.key(fn, "every path returns"), fn.loc(), "receive falls off the end")


# ------------------------------------------------------------------------------------------------ R17.3
def r17_3(ctx: Ctx, file_uni: Set[str]) -> None:
    ix = ctx.ix
    ctx.rule("R17.3", "_process_sql: the db file's health is written exactly on the DELETE edge (COMPROMISED) and the "
                      "ENCRYPT edge (CORRUPT), on every path of those edges; SELECT answers 200 with data only for file "
                      "health GOOD and never answers 200 for COMPROMISED data")
    fn = ix.method("DatabaseService._process_sql")
    g = CFG(fn.node)
    ld = LocalDefs(fn.node)
    ps = params_of(fn)
    if not ps:
        raise AnalysisError("R17.3: _process_sql has no query parameter")
    qp = ps[0]

    def lit_of(e: Edge) -> Optional[Tuple[str, bool]]:
        c = cond_of(e)
        if c is None:
            return None
        x = ld.expand(c[0])
        if isinstance(x, ast.Compare) and len(x.ops) == 1 and isinstance(x.ops[0], (ast.Eq, ast.NotEq)):
            l, r = x.left, x.comparators[0]
            for a, b in ((l, r), (r, l)):
                if isinstance(a, ast.Name) and a.id == qp and isinstance(b, ast.Constant) and isinstance(b.value, str):
                    return b.value, c[1] == isinstance(x.ops[0], ast.Eq)
        return None

    lits = sorted({lit_of(e)[0] for e in g.edges() if lit_of(e) is not None})
    for need in ("SELECT", "DELETE", "ENCRYPT"):
        if need not in lits:
            raise AnalysisError(f"R17.3: _process_sql no longer branches on query == {need!r} (literals found: {lits})")

    def under(n: CNode) -> Set[str]:
        return {L for L in lits if g.path_avoiding([n], lambda e, L=L: lit_of(e) == (L, True)) is None}

    file_stores: List[Tuple[CNode, str, Set[str]]] = []
    for n in real_nodes(g):
        for t, v, k in stmt_stores(n):
            if isinstance(t, ast.Attribute) and t.attr == "health_status" and unparse(t.value) == "self.db_file":
                m = enum_member(v) if v is not None else None
                if m is None or m[1] not in file_uni:
                    raise AnalysisError(f"R17.3: non-literal health stored into the db file: {unparse(v)[:50]}")
                file_stores.append((n, m[1], under(n)))
    ctx.floor("R17.3", "db file health stores in _process_sql", len(file_stores), 1)
    want = {"DELETE": "COMPROMISED", "ENCRYPT": "CORRUPT"}
    for n, val, lt in file_stores:
        ok = len(lt) == 1 and want.get(next(iter(lt))) == val
        ctx.record("R17.3", ctx.key(fn, f"db file health := {val} only for its query"), fn.loc(n.ast), ok,
                   f"store of {val} lies under query literal(s) {sorted(lt) or 'none'}; allowed: {want}")
    for L, val in want.items():
        stores = [n for n, v, lt in file_stores if v == val and lt == {L}]
        edges = [e for e in g.edges() if lit_of(e) == (L, True)]
        okp = bool(stores) and bool(edges)
        wit = None
        for e in edges:
            if e.dst in stores:
                continue
            p = g.path_avoiding([g.exit], lambda x: False, start=e.dst, blocked_nodes={s.id for s in stores})
            if p is not None:
                okp = False
                wit = path_text(p)
        ctx.record("R17.3", ctx.key(fn, f"{L} sets the db file health to {val}"), fn.loc(), okp,
                   f"every path taking the query == {L!r} edge stores {val} into self.db_file.health_status" if okp else
                   f"a {L} query can finish without marking the file {val}", wit)
    # SELECT answers
    flow = state_flow(g, "self.db_file", ["health_status"], file_uni)
    sel_tests = [n for n in real_nodes(g) if n.kind == "cond" and "SELECT" in under(n) and any(
        edge_state_set(e, ["health_status"], file_uni, ld) is not None for e in g.succ[n.id])]
    if not sel_tests:
        raise AnalysisError("R17.3: no recognisable test of self.db_file.health_status under query == 'SELECT'")
    n_ret = 0
    have_data = False
    for n in real_nodes(g):
        if not isinstance(n.ast, ast.Return) or under(n) != {"SELECT"}:
            continue
        d = dict_of(n.ast.value, ld)
        if d is None or "status_code" not in d or not isinstance(d["status_code"], ast.Constant):
            raise AnalysisError("R17.3: a SELECT answer is not a dict literal with a constant status_code")
        n_ret += 1
        status = d["status_code"].value
        data = d.get("data")
        data_true = isinstance(data, ast.Constant) and data.value is True
        if data is not None and not isinstance(data, ast.Constant):
            raise AnalysisError("R17.3: non-constant `data` in a SELECT answer")
        states = set(flow[n.id])
        if status == 200 and data_true:
            have_data = True
            ctx.record("R17.3", ctx.key(fn, "SELECT answers 200 with data only for a GOOD file"), fn.loc(n.ast),
                       states <= {"GOOD"}, f"file health possible at this answer: {sorted(states)}")
        if status == 200:
            ctx.record("R17.3", ctx.key(fn, f"SELECT 200 answer (data={unparse(data)}) excludes COMPROMISED data"),
                       fn.loc(n.ast), "COMPROMISED" not in states, f"file health possible at this answer: {sorted(states)}")
        else:
            ctx.ok("R17.3", ctx.key(fn, f"SELECT failing answer {status}"), fn.loc(n.ast),
                   f"file health possible at this answer: {sorted(states)}")
    ctx.floor("R17.3", "SELECT answers", n_ret, 2)
    ctx.record("R17.3", ctx.key(fn, "SELECT can succeed with data"), fn.loc(), have_data,
               "a 200/data=True answer exists" if have_data else "no SELECT answer ever carries data")
    corrupt_200 = [n for n in real_nodes(g) if isinstance(n.ast, ast.Return) and under(n) == {"SELECT"}
                   and "CORRUPT" in flow[n.id] and (dict_of(n.ast.value, ld) or {}).get("status_code") is not None
                   and getattr(dict_of(n.ast.value, ld)["status_code"], "value", None) == 200]
    if corrupt_200:
        ctx.note("observation (not a C17 clause): a SELECT on a CORRUPT (encrypted) file answers status 200 with data False, "
                 "which DatabaseClient counts as a successful query")


# ------------------------------------------------------------------------------------------------ R17.4
def r17_4(ctx: Ctx) -> None:
    ix = ctx.ix
    ctx.rule("R17.4", "DatabaseClient: execute / query / check_connection / get_new_connection / _disconnect / receive "
                      "act only past _can_perform_action; queries need an established connection; a client connection "
                      "is created only for `response is True`; success means status 200; _query/_connect have no other "
                      "callers")
    SENDS = ("send_payload_to_session_manager", "_query", "_connect", "connect", "check_connection", "get_new_connection",
             "query", "_create_client_connection", "terminate_connection", "_disconnect")

    def acting(g: CFG, names: Sequence[str] = SENDS) -> List[CNode]:
        return [n for n in real_nodes(g) if any(call_name(c) in names and not unparse(c.func).startswith("super()")
                                                for c in node_calls(n))]

    for m in ("execute", "query", "check_connection", "get_new_connection", "_disconnect", "receive"):
        f = ix.method(f"DatabaseClient.{m}")
        g = CFG(f.node)
        ld = LocalDefs(f.node)
        sinks = acting(g)
        stores = [n for n in real_nodes(g) if any(isinstance(t, (ast.Attribute, ast.Subscript)) and unparse(t).startswith("self.")
                                                  for t, v, k in stmt_stores(n))]
        gate(ctx, "R17.4", f, g, sinks + stores, can_edge(ld), "network/connection activity", "_can_perform_action edge")

    def native_edge(e: Edge) -> bool:
        c = cond_of(e)
        return c is not None and truthy_polarity(c[0], lambda s: unparse(s) == "self.native_connection") == c[1]

    f = ix.method("DatabaseClient.query")
    g = CFG(f.node)
    gate(ctx, "R17.4", f, g, acting(g, ("query", "_query")), native_edge, "sending a query", "native-connection-established edge")
    f = ix.method("DatabaseClient.execute")
    g = CFG(f.node)
    gate(ctx, "R17.4", f, g, acting(g, ("check_connection", "_query", "query")), native_edge, "the connection check query",
         "native-connection-established edge")
    f = ix.method("DatabaseClientConnection.query")
    g = CFG(f.node)
    sinks = acting(g, ("_query",))

    def active_edge(e: Edge) -> bool:
        c = cond_of(e)
        return c is not None and bool_polarity(c[0], lambda s: unparse(s) == "self.is_active") == c[1]

    def client_edge(e: Edge) -> bool:
        c = cond_of(e)
        return c is not None and truthy_polarity(c[0], lambda s: unparse(s) == "self.client") == c[1]

    gate(ctx, "R17.4", f, g, sinks, active_edge, "sending a query", "connection is_active edge")
    gate(ctx, "R17.4", f, g, sinks, client_edge, "sending a query", "client-installed edge")
    # _disconnect needs a known connection
    f = ix.method("DatabaseClient._disconnect")
    g = CFG(f.node)
    ps = params_of(f)

    def held_edge(e: Edge) -> bool:
        c = cond_of(e)
        if c is None or not ps:
            return False
        x = c[0]
        if isinstance(x, ast.Call) and isinstance(x.func, ast.Attribute) and x.func.attr == "get" \
                and unparse(x.func.value) == "self.client_connections" and x.args and unparse(x.args[0]) == ps[0]:
            return c[1]
        if isinstance(x, ast.Compare) and len(x.ops) == 1 and isinstance(x.ops[0], (ast.In, ast.NotIn)) \
                and unparse(x.left) == ps[0] and unparse(x.comparators[0]) == "self.client_connections":
            return c[1] == isinstance(x.ops[0], ast.In)
        return False

    gate(ctx, "R17.4", f, g, acting(g, ("send_payload_to_session_manager",)), held_edge, "the disconnect message",
         "connection-held edge")
    # receive: connection object only for response True; success flag is status == 200
    f = ix.method("DatabaseClient.receive")
    g = CFG(f.node)
    ld = LocalDefs(f.node)

    def accepted_edge(e: Edge) -> bool:
        c = cond_of(e)
        if c is None:
            return False
        p = bool_polarity(c[0], lambda s: payload_key(s, ld) is not None and payload_key(s, ld)[1] == "response")
        return p is not None and p == c[1]

    gate(ctx, "R17.4", f, g, nodes_calling(g, ["_create_client_connection"]), accepted_edge, "_create_client_connection",
         "`response is True` edge")
    flags = [(n, v) for n in real_nodes(g) for t, v, k in stmt_stores(n)
             if isinstance(t, ast.Subscript) and unparse(t.value) == "self._query_success_tracker" and v is not None]
    ctx.floor("R17.4", "success flags stored by receive", len(flags), 1)
    for n, v in flags:
        tab = []
        for code in (200, 401, 404, 500):
            env: Dict[str, object] = {}
            for sub in ast.walk(ld.expand(v)):
                for cand in (sub, ld.expand(sub) if isinstance(sub, ast.Name) else sub):
                    pk = payload_key(cand)
                    if pk is not None and pk[1] == "status_code":
                        env[unparse(sub)] = code
            r = Evaluator(env, ld).ev(v)
            if r is UNKNOWN:
                raise AnalysisError(f"R17.4: success flag `{unparse(v)[:50]}` cannot be evaluated from the status code")
            tab.append(bool(r))
        ctx.record("R17.4", ctx.key(f, "a query counts as successful only for status 200"), f.loc(n.ast),
                   tuple(tab) == (True, False, False, False), f"flag for status 200/401/404/500: {tuple(tab)}")
    # _query: True only for a recorded success
    f = ix.method("DatabaseClient._query")
    g = CFG(f.node)
    ld = LocalDefs(f.node)
    trues = [n for n in real_nodes(g) if isinstance(n.ast, ast.Return) and isinstance(n.ast.value, ast.Constant)
             and n.ast.value.value is True]

    def recorded_edge(e: Edge) -> bool:
        c = cond_of(e)
        if c is None:
            return False
        return truthy_polarity(c[0], lambda s: "self._query_success_tracker" in unparse(ld.expand(s))) == c[1]

    gate(ctx, "R17.4", f, g, trues, recorded_edge, "`return True`", "recorded-success edge")
    # who may call the ungated helpers
    allowed = {"DatabaseClientConnection.query", "DatabaseClient.check_connection", "DatabaseClient._query",
               "DatabaseClient._connect", "DatabaseClient.get_new_connection"}
    n_c = 0
    for cs in call_sites(ix, ["_query", "_connect"]):
        if cs.path != DBC:
            rc = recv_class(ix, cs.fn, cs.call.func.value) if isinstance(cs.call.func, ast.Attribute) else None
            if rc is None or rc.name != "DatabaseClient":
                continue
        n_c += 1
        ctx.record("R17.4", f"{cs.path}::{cs.owner}::calls {unparse(cs.call.func)}", cs.where, cs.owner in allowed,
                   "gated entry point (or the helper's own re-attempt)" if cs.owner in allowed else
                   "ungated helper called from outside the gated entry points")
    ctx.floor("R17.4", "call sites of _query/_connect", n_c, 5)


# ------------------------------------------------------------------------------------------------ R17.5
def r17_5(ctx: Ctx) -> None:
    ix = ctx.ix
    ctx.rule("R17.5", "who-may-write: the configured database password (password setter only) and the connection table "
                      "_connections (add_connection / terminate_connection / clear_connections; terminal code for the "
                      "terminal's own table); add_connection on a DatabaseService only from _process_connect")
    dbs = ix.cls("DatabaseService")
    n = 0
    for s in stores_to_attr(ix, ["db_password"]):
        if s.fn is None:
            continue
        n += 1
        ok = s.owner == "DatabaseService.password" or s.owner == "DatabaseService.password.setter"
        ctx.record("R17.5", f"{s.path}::{s.owner}::writes db_password ({s.kind})", s.where, ok,
                   "the password property's setter" if ok else "configured database password written elsewhere")
    for s in stores_to_attr(ix, ["password"]):
        rc = recv_class(ix, s.fn, s.recv)
        if rc is None or not ix.is_subclass(rc, dbs):
            continue
        n += 1
        ctx.record("R17.5", f"{s.path}::{s.owner}::sets DatabaseService.password", s.where, False,
                   "the database password is changed at run time outside configuration")
    ctx.floor("R17.5", "writers of the database password", n, 1)
    allowed = {"IOSoftware.add_connection": "adds after the capacity test", "IOSoftware.terminate_connection": "closes one",
               "IOSoftware.clear_connections": "drops all (DoS bot reset)"}
    terminal_ok = {"Terminal._create_local_connection", "Terminal._create_remote_connection", "Terminal.receive",
                   "Terminal._disconnect", "UserSessionManager._timeout_session"}
    n = 0
    for s in stores_to_attr(ix, ["_connections"]):
        if s.fn is None:
            continue
        n += 1
        if s.owner in terminal_ok:
            ctx.ok("R17.5", f"{s.path}::{s.owner}::writes _connections ({s.kind})", s.where,
                   "the terminal's own connection table (C16)", trivial=True)
            continue
        ctx.record("R17.5", f"{s.path}::{s.owner}::writes _connections ({s.kind})", s.where, s.owner in allowed,
                   allowed.get(s.owner, "connection table written outside add/terminate/clear_connections"))
    ctx.floor("R17.5", "writers of _connections", n, 3)
    n = 0
    for cs in call_sites(ix, ["add_connection", "clear_connections"]):
        if cs.fn is None or not isinstance(cs.call.func, ast.Attribute):
            continue
        rc = recv_class(ix, cs.fn, cs.call.func.value)
        if rc is None or not ix.is_subclass(rc, dbs):
            continue  # another service's table (FTP client/server, DoS bot) or the generic base class
        n += 1
        ok = cs.owner == "DatabaseService._process_connect" and call_name(cs.call) == "add_connection"
        ctx.record("R17.5", f"{cs.path}::{cs.owner}::calls {unparse(cs.call.func)} on the database service", cs.where, ok,
                   "the password-gated connect handler" if ok else "connection table of the database service changed elsewhere")
    ctx.floor("R17.5", "add_connection sites on DatabaseService", n, 1)


# ------------------------------------------------------------------------------------------------ R17.6
def r17_6(ctx: Ctx) -> None:
    ix = ctx.ix
    ctx.rule("R17.6", "backup_database / restore_backup use the FTP client, the file system and the health setter only "
                      "past _can_perform_action; the restore after a fix runs only when the fixing countdown has ended")
    for m, names in (("backup_database", ("send_file",)),
                     ("restore_backup", ("request_file", "delete_file", "copy_file", "set_health_state"))):
        f = ix.method(f"DatabaseService.{m}")
        g = CFG(f.node)
        ld = LocalDefs(f.node)
        sinks = nodes_calling(g, names)
        stores = [n for n in real_nodes(g) if any(isinstance(t, ast.Attribute) for t, v, k in stmt_stores(n))]
        gate(ctx, "R17.6", f, g, sinks + stores, can_edge(ld), "/".join(names), "_can_perform_action edge")
        if len({call_name(c) for n in sinks for c in node_calls(n)} & set(names)) < len(names):
            raise AnalysisError(f"R17.6: {m} no longer calls all of {names}")
        rets_true = [n for n in real_nodes(g) if isinstance(n.ast, ast.Return) and isinstance(n.ast.value, ast.Constant)
                     and n.ast.value.value is True]
        first = nodes_calling(g, [names[0]])
        for n in rets_true:
            w = g.path_avoiding([n], lambda e: False, blocked_nodes={x.id for x in first})
            ctx.record("R17.6", ctx.key(f, f"answers True only after {names[0]}"), f.loc(n.ast), w is None,
                       f"`return True` is reachable only through {names[0]}" if w is None else f"True without {names[0]}",
                       path_text(w))
    f = ix.method("DatabaseService._update_fix_status")
    g = CFG(f.node)

    def done_edge(e: Edge) -> bool:
        c = cond_of(e)
        return c is not None and truthy_polarity(c[0], lambda s: unparse(s) == "self._fixing_countdown") == (not c[1])

    gate(ctx, "R17.6", f, g, nodes_calling(g, ["restore_backup"]), done_edge, "restore_backup", "fixing-countdown-ended edge")


LOOKUPS = ("get_file", "get_folder", "get_file_by_id", "get_folder_by_id")


def _lookup_includes_deleted(ix, fn: FuncInfo, e: ast.AST, depth: int = 2) -> Optional[bool]:
    """For an expression that yields a file-system item through a look-up: can the result be a *deleted* item?
    True / False; None when e is not a look-up."""
    if isinstance(e, ast.Call) and call_name(e) in LOOKUPS:
        v = kwarg(e, "include_deleted")
        if v is None:
            return False
        return not (isinstance(v, ast.Constant) and v.value is False)
    if isinstance(e, ast.Attribute) and isinstance(e.value, ast.Name) and e.value.id == "self" and fn.cls is not None and depth > 0:
        h = ix.find_method(fn.cls, e.attr)
        if h is not None and h.is_property and not isinstance(h.node, ast.Lambda):
            rets = [r.value for r in ast.walk(h.node) if isinstance(r, ast.Return) and r.value is not None]
            vals = [_lookup_includes_deleted(ix, h, r, depth - 1) for r in rets]
            if vals and all(v is not None for v in vals):
                return any(vals)
    return None


def r17_7(ctx: Ctx) -> None:
    """Contradiction rule (stated belief): code that branches on `<item>.deleted` believes the item may be deleted; then the
    look-up that produced the item must be able to return deleted items.  A look-up without include_deleted=True never does, so
    the deleted branch is dead - in restore_backup that is the branch that brings a deleted database file back."""
    ix = ctx.ix
    ctx.rule("R17.7", "an item whose `.deleted` flag the function branches on comes from a look-up that can return deleted items "
                      "(include_deleted=True); restore_backup has such a branch")
    n = 0
    for fn in ix.functions:
        if isinstance(fn.node, ast.Lambda) or not fn.path.startswith("src/primaite/simulator/"):
            continue
        if not any(isinstance(x, ast.Attribute) and x.attr == "deleted" for x in ast.walk(fn.node)):
            continue
        ld = LocalDefs(fn.node)
        tested = {x.value.id for t in ast.walk(fn.node) if isinstance(t, (ast.If, ast.While, ast.IfExp)) for x in ast.walk(expand_test(ld, t.test))
                  if isinstance(x, ast.Attribute) and x.attr == "deleted" and isinstance(x.value, ast.Name)}
        # the same test on `self.<property>.deleted` (a local that merely named the property is presented as the property itself)
        tested_props = {unparse(x.value): x.value for t in ast.walk(fn.node) if isinstance(t, (ast.If, ast.While, ast.IfExp))
                        for x in ast.walk(expand_test(ld, t.test))
                        if isinstance(x, ast.Attribute) and x.attr == "deleted" and isinstance(x.value, ast.Attribute)
                        and isinstance(x.value.value, ast.Name) and x.value.value.id == "self"}
        for txt, e_ in sorted(tested_props.items()):
            k_ = _lookup_includes_deleted(ix, fn, e_)
            if k_ is None:
                continue
            n += 1
            ctx.record("R17.7", ctx.key(fn, f"`{txt}.deleted` is tested on an item that may be deleted"), fn.loc(e_), bool(k_),
                       f"`{txt}` is a look-up property" + ("" if k_ else
                       " that never yields a deleted item, yet the function branches on its `.deleted` flag: the branch for a deleted item is dead"))
        if not tested:
            continue
        for nm in sorted(tested):
            vals = [v for v, i in ld.all_values(nm) if v is not None and i is None]
            kinds = [(_lookup_includes_deleted(ix, fn, v), v) for v in vals]
            kinds = [(k, v) for k, v in kinds if k is not None]
            if not kinds:
                continue  # a parameter, a loop variable ...: not produced by a look-up here
            n += 1
            ok = any(k for k, _ in kinds)
            ctx.record("R17.7", ctx.key(fn, f"`{nm}.deleted` is tested on an item that may be deleted"), fn.loc(kinds[0][1]), ok,
                       f"`{nm}` = {unparse(kinds[0][1])[:70]}" + ("" if ok else
                       " never yields a deleted item, yet the function branches on its `.deleted` flag: the branch for a deleted item is dead"))
    ctx.floor("R17.7", "look-up results whose deleted flag is tested", n, 1)
    rb = ix.method("DatabaseService.restore_backup")
    has = any(isinstance(x, ast.Attribute) and x.attr == "deleted" for t in ast.walk(rb.node) if isinstance(t, ast.If)
              for x in ast.walk(expand_test(LocalDefs(rb.node), t.test)))
    ctx.record("R17.7", ctx.key(rb, "restore distinguishes a deleted database file"), rb.loc(), has,
               "restore_backup branches on the file's deleted flag" if has else "restore_backup no longer handles a deleted database file")



def r17_8(ctx: Ctx) -> None:
    """(a) restore/backup rest on the FTP client's verdict: a transfer method that looks at the reply's status code answers True
    only for OK (an unanswered request leaves the code None, an unreachable server leaves it unset).  (b) the database client's
    `connected` attribute is a client-wide flag kept by constant stores; with several connections it says nothing about any one of
    them, so no decision may be taken from it."""
    ix = ctx.ix
    ctx.rule("R17.8", "(a) FTP client methods that inspect the reply's status code return True only when it is OK; (b) no DatabaseClient "
                      "decision reads the client-wide `connected` flag while that flag is kept by constant stores")
    codes = set(ix.enum_members(ix.cls("FTPStatusCode")))
    if "OK" not in codes:
        raise AnalysisError("R17.8: FTPStatusCode has no member OK")
    uni = codes | {"<none>"}
    n = 0
    for f in ix.cls("FTPClient").methods.values():
        if isinstance(f.node, ast.Lambda):
            continue
        g = CFG(f.node)
        ld = LocalDefs(f.node)
        subjects = set()
        for e in g.edges():
            es = edge_state_set(e, ["status_code"], uni, ld)
            if es is not None:
                subjects.add(es[0])
        rets_true = [x for x in g.nodes if x.kind == "stmt" and isinstance(x.ast, ast.Return) and isinstance(x.ast.value, ast.Constant)
                     and x.ast.value.value is True]
        if not subjects or not rets_true or f.name == "receive":
            continue  # `receive` handles replies of every status; it does not report a transfer's success
        for subj in sorted(subjects):
            flow = state_flow(g, subj, ["status_code"], uni)
            for r in rets_true:
                got = set(flow.get(r.id, frozenset(uni)))
                n += 1
                ctx.record("R17.8", ctx.key(f, f"True only for {subj}.status_code OK"), f.loc(r.ast), got <= {"OK"},
                           f"`return True` is reached with the reply's status in {sorted(got)}" + ("" if got <= {"OK"} else
                           ": success is reported for a reply that is not OK (or for no reply at all)"))
    ctx.floor("R17.8", "FTP client success returns behind a status test", n, 2)
    dbc = ix.cls("DatabaseClient")
    stores = [s for s in stores_to_attr(ix, ["connected"]) if s.fn is not None and s.fn.cls is dbc]
    derived = [s for s in stores if not isinstance(s.value, ast.Constant)]
    reads = []
    for f in dbc.methods.values():
        if isinstance(f.node, ast.Lambda):
            continue
        g = CFG(f.node)
        for c in g.nodes:
            r = c.expr_root() if c.kind == "cond" else None
            if r is not None and any(isinstance(x, ast.Attribute) and x.attr == "connected" and unparse(x.value) == "self" and
                                     isinstance(x.ctx, ast.Load) for x in ast.walk(r)):
                reads.append((f, c))
    if derived or not stores:
        ctx.ok("R17.8", f"{dbc.path}::DatabaseClient::connected flag", f"{dbc.path}:{dbc.node.lineno}",
               "the flag is no longer kept by constant stores only: whether it is fit for decisions is not decided here", trivial=True)
    else:
        ctx.record("R17.8", f"{dbc.path}::DatabaseClient::no decision reads the client-wide connected flag", f"{dbc.path}:{dbc.node.lineno}",
                   not reads, f"{len(stores)} constant stores, no branch reads it" if not reads else
                   "a branch in " + ", ".join(sorted({f.short for f, _ in reads})) + " decides from `self.connected`, which the last connect / "
                   "disconnect of any connection overwrites: with two connections the decision is wrong for one of them")


def check(ctx: Ctx) -> None:
    ix = ctx.ix
    svc = ix.enum_members(ix.cls("ServiceOperatingState"))
    health = ix.enum_members(ix.cls("SoftwareHealthState"))
    files = set(ix.enum_members(ix.cls("FileSystemItemHealthStatus")))
    if "RUNNING" not in svc or "GOOD" not in health or not {"GOOD", "COMPROMISED", "CORRUPT"} <= files:
        raise AnalysisError("C17: enum members of the service/health/file-health enums changed")
    r17_1(ctx, svc, health)
    r17_2(ctx)
    r17_3(ctx, files)
    r17_4(ctx)
    r17_5(ctx)
    r17_6(ctx)
    r17_7(ctx)
    r17_8(ctx)
