"""C10 - reward = weighted sum of components; shared rewards use same-step values; sticky memory; episode total."""
from __future__ import annotations

import ast
from typing import Callable, Dict, Iterable, List, Optional, Sequence, Set, Tuple

from ..absval import UNKNOWN, Evaluator
from ..astutil import call_name, calls_in, const_value, kwarg, names_loaded, unparse, walk_shallow
from ..cfg import CFG, CNode, Edge, LocalDefs, path_text
from ..index import AnalysisError, ClassInfo, FuncInfo
from ..inventory import call_sites, recv_class, stores_to_attr
from ..report import Ctx
from .common import node_calls, nodes_calling

EXPLANATION = (
    "Static analysis of the reward bookkeeping. Decided: R10.1 RewardFunction.update initialises an accumulator to 0, "
    "loops over ALL of self.reward_components (no skip, no early exit), adds weight * component.calculate(state, "
    "last_action_response) on every iteration (tuple slot 0 = component, slot 1 = weight, agreeing with "
    "register_component; __init__ registers every configured component with its configured weight), stores "
    "current_reward exactly once after the loop, is the only writer of current_reward, and AbstractAgent.update_reward "
    "hands it the post-step state and the agent's own history[-1]; R10.2 PrimaiteGame.update_agents iterates "
    "self._reward_calculation_order forwards (not self.agents), the reward update runs in an iteration exactly when "
    "step_counter >= 1 (truth table), update_reward precedes save_reward_to_history, and total_reward += current_reward "
    "of the same agent happens exactly once per agent per call, after the update, from the only writer of total_reward; "
    "R10.3 setup_reward_sharing gives every agent a graph node and adds edges agent -> agent it reads from only for "
    "SharedReward components, installs a callback that reads self.agents[<its own argument>].reward_function."
    "current_reward, consults graph_has_cycle and raises RuntimeError on the true edge before the order is stored, "
    "stores topological_sort(graph) unreversed; science.topological_sort is a DFS post-order (a node is appended once, "
    "after the loop over all its neighbours, result returned unreversed) and science.graph_has_cycle is a "
    "recursion-stack DFS (back edge -> True tested before the visited shortcut, node put on / taken off the stack "
    "around the recursion, recursive True propagated, every key started from); from_config builds all agents, then "
    "calls setup_reward_sharing, then update_agents; R10.4 for each reward component with a `sticky` option: no path "
    "through the sticky edge stores the remembered value (except the reset when the observed object is absent from "
    "the state) and it returns that value, every path through the not-sticky edge ends with the remembered value set "
    "to the constant 0, and a qualifying event updates the value without consulting the flag; a component that interprets the action's "
    "response does so only behind the test that the action was its own request. R10.5 the numeric settings this property depends on are never tested by truthiness (`x or default`, `if x:`) - 0 is a legal value for them. "
    "R10.6 every per-step reset in a simulator pre_timestep (response codes, execution / access counters, link load) is unconditional with respect to the operating state. "
    "NOT decided: the "
    "arithmetic inside individual components, floating point rounding of the sum, exhaustive enumeration of sharing "
    "graphs (the DFS functions are decided structurally, not by running them), behaviour when a shared-reward names an "
    "agent that does not exist."
)
TECHNIQUE = "static: CFG loop/exactly-once analysis of reward accumulation, structural check of DFS post-order and cycle detection, sticky-edge must-pass"
ASSUMPTIONS = [
    "pydantic copies the mutable field default of RewardFunction.reward_components per instance",
    "PrimaiteGame objects used for episodes are built by PrimaiteGame.from_config only",
    "no setattr/exec writes to current_reward / total_reward / _reward_calculation_order (dynamic-feature census)",
]

GAME_PATH = "src/primaite/game/game.py"
SCIENCE_MOD = "primaite.game.science"


# --------------------------------------------------------------------------------------------------- local helpers
_INVENTORY_ATTRS = ("current_reward", "total_reward", "reward_components", "_reward_calculation_order", "agents", "reward")


def _stores(ctx: Ctx, attr: str):
    """One whole-repo store inventory per run (a repo walk costs ~0.5 s), filtered per attribute."""
    cache = getattr(ctx, "_c10_stores", None)
    if cache is None:
        cache = stores_to_attr(ctx.ix, _INVENTORY_ATTRS)
        ctx._c10_stores = cache
    if attr not in _INVENTORY_ATTRS:
        raise AnalysisError(f"internal: attribute {attr} not inventoried")
    return [s for s in cache if s.attr == attr]


def _is_zero(e: Optional[ast.AST]) -> bool:
    ok, v = const_value(e) if e is not None else (False, None)
    return ok and isinstance(v, (int, float)) and not isinstance(v, bool) and v == 0


def _body_entry(g: CFG, loop: CNode) -> CNode:
    for e in g.succ[loop.id]:
        if e.label and e.label[0] == "iter" and e.label[2]:
            return e.dst
    raise AnalysisError(f"loop at line {loop.lineno} has an empty body in the CFG")


def _is_exhausted_edge(e: Edge, loop: CNode) -> bool:
    return bool(e.label and e.label[0] == "iter" and e.src is loop and not e.label[2])


def _skip_witness(g: CFG, loop: CNode, marks: Sequence[CNode],
                  allowed: Callable[[Edge], bool] = lambda e: False) -> Optional[List[str]]:
    """None if every iteration of `loop` passes one of `marks` (or takes an `allowed` edge); else a witness."""
    start = _body_entry(g, loop)
    ids = {m.id for m in marks}
    if start.id in ids:
        return None
    p = g.path_avoiding([loop], allowed, start=start, blocked_nodes=ids)
    if p is None:
        return None
    return path_text(p) or ["(straight-line iteration that never reaches the statement)"]


def _early_exits(g: CFG, loop: CNode) -> List[CNode]:
    """break / return / raise statements inside the loop body."""
    return [n for n in g.nodes if n.kind == "stmt" and loop.ast in n.loops
            and isinstance(n.ast, (ast.Break, ast.Return, ast.Raise))]


def _continues(g: CFG, loop: CNode) -> List[CNode]:
    return [n for n in g.nodes if n.kind == "stmt" and n.loops and n.loops[-1] is loop.ast and isinstance(n.ast, ast.Continue)]


def _loops_over(g: CFG, ld: LocalDefs, pred: Callable[[ast.AST], bool]) -> List[CNode]:
    return [n for n in g.nodes if n.kind == "for" and pred(ld.expand(n.ast.iter))]


def _strip_list(e: ast.AST) -> ast.AST:
    """list(x) / tuple(x) -> x (order preserving wrappers)."""
    while isinstance(e, ast.Call) and isinstance(e.func, ast.Name) and e.func.id in ("list", "tuple") and len(e.args) == 1 \
            and not e.keywords:
        e = e.args[0]
    return e


def _is_reversal(e: ast.AST) -> bool:
    if isinstance(e, ast.Call) and call_name(e) in ("reversed",):
        return True
    if isinstance(e, ast.Subscript) and isinstance(e.slice, ast.Slice) and e.slice.step is not None:
        ok, v = const_value(e.slice.step)
        return ok and isinstance(v, int) and v < 0
    return False


def _elem_slot(expr: ast.AST, loop: CNode, ld: LocalDefs) -> Optional[int]:
    """Which slot of the element the loop iterates over does `expr` denote?  `for a, b in xs` -> a:0, b:1;
    `for t in xs: a = t[0]` -> a:0; `t[1]` -> 1.  None if it is not such a projection."""
    tgt = loop.ast.target
    for _ in range(3):
        if isinstance(expr, ast.Subscript) and isinstance(expr.value, ast.Name) and isinstance(tgt, ast.Name) \
                and expr.value.id == tgt.id:
            ok, v = const_value(expr.slice)
            return v if ok and isinstance(v, int) else None
        if isinstance(expr, ast.Name):
            if isinstance(tgt, (ast.Tuple, ast.List)):
                for i, el in enumerate(tgt.elts):
                    if isinstance(el, ast.Name) and el.id == expr.id:
                        ds = ld.defs.get(expr.id, [])
                        if len(ds) == 1 and ds[0][2] is loop.ast:
                            return i
                        return None
            s = ld.single(expr.id)
            if s and s[0] is not None and s[1] is None:
                expr = s[0]
                continue
        return None
    return None


def _loop_var_name(loop: CNode, slot: Optional[int] = None) -> Optional[str]:
    t = loop.ast.target
    if slot is None:
        return t.id if isinstance(t, ast.Name) else None
    if isinstance(t, (ast.Tuple, ast.List)) and len(t.elts) > slot and isinstance(t.elts[slot], ast.Name):
        return t.elts[slot].id
    return None


def _self_attr_stores(g: CFG, attr: str, subject: str = "self") -> List[CNode]:
    out = []
    for n in g.nodes:
        if n.kind != "stmt" or not isinstance(n.ast, (ast.Assign, ast.AugAssign, ast.AnnAssign)):
            continue
        tgts = n.ast.targets if isinstance(n.ast, ast.Assign) else [n.ast.target]
        flat: List[ast.AST] = []
        for t in tgts:
            flat.extend(t.elts if isinstance(t, (ast.Tuple, ast.List)) else [t])
        if any(isinstance(t, ast.Attribute) and t.attr == attr and unparse(t.value) == subject for t in flat):
            out.append(n)
    return out


def _between(g: CFG, a: CNode, b: CNode, blocked_nodes: Optional[Set[int]] = None) -> Optional[List[Edge]]:
    return g.path_avoiding([b], lambda e: False, start=a, blocked_nodes=blocked_nodes or set())


# --------------------------------------------------------------------------------------------------- R10.1
def r10_1(ctx: Ctx) -> None:
    ix = ctx.ix
    R = "R10.1"
    ctx.rule(R, "RewardFunction.update: accumulator from 0, loop over all reward_components without skip, "
                "+= weight * comp.calculate(state, last_action_response), single store of current_reward after the loop; "
                "single writer; update_reward passes state and history[-1]; registration keeps (component, weight) order")
    fn = ix.method("RewardFunction.update")
    g = CFG(fn.node)
    ld = LocalDefs(fn.node)
    params = [a.arg for a in fn.node.args.args]
    if len(params) < 3:
        raise AnalysisError("R10.1: RewardFunction.update no longer takes (self, state, last_action_response)")
    p_state, p_last = params[1], params[2]

    cand = [n for n in g.nodes if n.kind == "for" and "reward_components" in unparse(ld.expand(n.ast.iter))]
    if not cand:
        raise AnalysisError("R10.1: no `for` loop over reward_components in RewardFunction.update (comprehension or "
                            "other form: cannot be put into the loop normal form)")
    if len(cand) > 1:
        raise AnalysisError("R10.1: more than one loop over reward_components in RewardFunction.update")
    loop = cand[0]
    it = _strip_list(ld.expand(loop.ast.iter))
    ctx.record(R, ctx.key(fn, "loop ranges over all registered components"), fn.loc(loop.ast),
               unparse(it) == "self.reward_components",
               f"iterates {unparse(loop.ast.iter)}" + ("" if unparse(it) == "self.reward_components" else
                                                         " - not the whole list of registered components"))
    # the accumulate statement
    acc_nodes: List[Tuple[CNode, str, ast.AST]] = []
    for n in g.nodes:
        if n.kind != "stmt" or loop.ast not in n.loops:
            continue
        a = n.ast
        if isinstance(a, ast.AugAssign) and isinstance(a.target, ast.Name) and any(call_name(c) == "calculate" for c in calls_in(a)):
            if not isinstance(a.op, ast.Add):
                ctx.fail(R, ctx.key(fn, "component values are added"), fn.loc(a), f"`{unparse(a)[:80]}` does not add")
                continue
            acc_nodes.append((n, a.target.id, a.value))
        elif isinstance(a, ast.Assign) and len(a.targets) == 1 and isinstance(a.targets[0], ast.Name) \
                and isinstance(a.value, ast.BinOp) and isinstance(a.value.op, ast.Add) \
                and any(call_name(c) == "calculate" for c in calls_in(a.value)):
            nm = a.targets[0].id
            l, r = a.value.left, a.value.right
            if isinstance(l, ast.Name) and l.id == nm:
                acc_nodes.append((n, nm, r))
            elif isinstance(r, ast.Name) and r.id == nm:
                acc_nodes.append((n, nm, l))
    calc_nodes = [n for n in g.nodes if loop.ast in n.loops and any(call_name(c) == "calculate" for c in node_calls(n))]
    if not calc_nodes:
        raise AnalysisError("R10.1: the loop over reward_components does not call .calculate()")
    if len(acc_nodes) != 1:
        # calculate() result held in a local first: `r = comp.calculate(..)` ; `total += weight * r`
        raise AnalysisError(f"R10.1: expected exactly one `acc += weight * comp.calculate(...)` statement in the loop, "
                            f"found {len(acc_nodes)}")
    acc_node, acc_name, term = acc_nodes[0]
    # term = weight * comp.calculate(...)
    ok_term, why = False, ""
    if isinstance(term, ast.BinOp) and isinstance(term.op, ast.Mult):
        sides = [term.left, term.right]
        calls = [s for s in sides if isinstance(s, ast.Call) and call_name(s) == "calculate"]
        others = [s for s in sides if s not in calls]
        if len(calls) == 1 and len(others) == 1 and isinstance(calls[0].func, ast.Attribute):
            c_slot = _elem_slot(calls[0].func.value, loop, ld)
            w_slot = _elem_slot(others[0], loop, ld)
            if c_slot is None or w_slot is None:
                raise AnalysisError(f"R10.1: cannot relate `{unparse(term)[:70]}` to the slots of the iterated tuple")
            ok_term = (c_slot, w_slot) == (0, 1)
            why = f"receiver of calculate = slot {c_slot}, multiplier = slot {w_slot} of the (component, weight) pair"
        else:
            raise AnalysisError(f"R10.1: term `{unparse(term)[:70]}` is not <weight> * <comp>.calculate(...)")
    elif isinstance(term, ast.Call) and call_name(term) == "calculate":
        ok_term, why = False, "the component value is added without its weight"
    else:
        raise AnalysisError(f"R10.1: term `{unparse(term)[:70]}` is not <weight> * <comp>.calculate(...)")
    ctx.record(R, ctx.key(fn, "adds weight * component.calculate(...)"), fn.loc(acc_node.ast), ok_term, why)
    call = [c for c in calls_in(term) if call_name(c) == "calculate"][0]
    a_state, a_last = kwarg(call, "state", 0), kwarg(call, "last_action_response", 1)
    ok_args = isinstance(a_state, ast.Name) and a_state.id == p_state and isinstance(a_last, ast.Name) and a_last.id == p_last
    ctx.record(R, ctx.key(fn, "components see this call's state and action response"), fn.loc(call), ok_args,
               f"calculate(state={unparse(a_state)}, last_action_response={unparse(a_last)})")
    # no skipped component
    exits = _early_exits(g, loop)
    w = _skip_witness(g, loop, [acc_node])
    ctx.record(R, ctx.key(fn, "no component is skipped"), fn.loc(loop.ast), w is None and not exits,
               "every iteration reaches the accumulate statement; no break/return/raise in the loop" if w is None and not exits
               else ("an iteration can bypass the accumulate statement" if w else
                     f"loop can be left early at line(s) {[x.lineno for x in exits]}"), w)
    # accumulator starts at 0, before the loop
    inits = [(v, st) for v, _i, st in ld.defs.get(acc_name, []) if not isinstance(st, ast.AugAssign) and st is not acc_node.ast]
    dom = g.dominators()
    init_nodes = [n for n in g.nodes if n.kind == "stmt" and any(n.ast is st for _v, st in inits)]
    ok_init = len(inits) == 1 and _is_zero(inits[0][0]) and len(init_nodes) == 1 and init_nodes[0].id in dom.get(loop.id, set()) \
        and not init_nodes[0].loops
    ctx.record(R, ctx.key(fn, "accumulator starts at 0"), fn.loc(init_nodes[0].ast) if init_nodes else fn.loc(), ok_init,
               f"{acc_name} initialised by {[unparse(st)[:40] for _v, st in inits]} before the loop")
    # single store of current_reward after the loop
    stores = _self_attr_stores(g, "current_reward")
    lo, hi = g.count_range(lambda n: n in stores)
    ok_store = len(stores) == 1 and (lo, hi) == (1, 1) and not stores[0].loops and isinstance(stores[0].ast, ast.Assign)
    if ok_store:
        v = stores[0].ast.value
        ok_val = isinstance(v, ast.Name) and v.id == acc_name
        after = g.path_avoiding([stores[0]], lambda e: _is_exhausted_edge(e, loop)) is None
        ok_store = ok_val and after
        detail = f"`{unparse(stores[0].ast)}` executed once per call, reached only past the exhausted loop: {after}"
    else:
        detail = f"{len(stores)} store statement(s), executed {lo}..{hi} times per call"
    ctx.record(R, ctx.key(fn, "current_reward stored once, after the loop, from the accumulator"),
               fn.loc(stores[0].ast) if stores else fn.loc(), ok_store, detail)
    # who may write current_reward / reward_components
    n_w = 0
    for s in _stores(ctx, "current_reward"):
        n_w += 1
        ok = s.owner == "RewardFunction.update"
        ctx.record(R, f"{s.path}::{s.owner}::store current_reward", s.where, ok,
                   "the only writer of the step reward" if ok else "second writer of an agent's step reward")
    ctx.floor(R, "writers of current_reward", n_w, 1)
    rf = ix.cls("RewardFunction")
    for fld in ("current_reward", "total_reward"):
        f = rf.fields.get(fld)
        ctx.record(R, f"{rf.path}::RewardFunction::default of {fld} is 0", f"{rf.path}:{getattr(f.node, 'lineno', 0) if f else 0}",
                   f is not None and _is_zero(f.default), f"{fld} default = {unparse(f.default) if f else 'missing'} (update_agents adds "
                   "current_reward to the total before the first action, which is only correct if it starts at 0)")
    n_rc = 0
    for s in _stores(ctx, "reward_components"):
        if s.fn is None or s.fn.cls is None or s.fn.cls.short != "RewardFunction":
            if s.fn is not None and "reward_function" not in unparse(s.recv):
                continue
        n_rc += 1
        ok = s.owner == "RewardFunction.register_component" and s.kind == "mutcall:append"
        ctx.record(R, f"{s.path}::{s.owner}::{s.kind} reward_components", s.where, ok,
                   "components are only ever appended, by register_component" if ok else
                   "the list of registered components is modified outside register_component")
    ctx.floor(R, "writers of reward_components", n_rc, 1)
    # register_component appends (component, weight)
    reg = ix.method("RewardFunction.register_component")
    apps = [c for c in calls_in(reg.node) if call_name(c) == "append" and unparse(c.func.value) == "self.reward_components"]
    rp = [a.arg for a in reg.node.args.args]
    ok_reg = len(apps) == 1 and len(apps[0].args) == 1 and isinstance(apps[0].args[0], ast.Tuple) and \
        [unparse(e) for e in apps[0].args[0].elts] == rp[1:3] and rp[1:3] == ["component", "weight"]
    ctx.record(R, ctx.key(reg, "appends (component, weight)"), reg.loc(), ok_reg,
               f"append({unparse(apps[0].args[0]) if apps and apps[0].args else '?'}) - slot order must agree with update()")
    # __init__ registers every configured component with its configured weight
    init = ix.method("RewardFunction.__init__")
    gi = CFG(init.node)
    ldi = LocalDefs(init.node)
    loops = _loops_over(gi, ldi, lambda e: unparse(_strip_list(e)) == "self.config.reward_components")
    if len(loops) != 1:
        raise AnalysisError("R10.1: RewardFunction.__init__ has no single loop over self.config.reward_components")
    lp = loops[0]
    regs = [n for n in gi.nodes if lp.ast in n.loops and any(call_name(c) == "register_component" for c in node_calls(n))]
    w = _skip_witness(gi, lp, regs) if regs else ["register_component is never called"]
    ok_i = w is None and len(regs) == 1 and not _early_exits(gi, lp)
    var = _loop_var_name(lp)
    if ok_i:
        c = [c for c in node_calls(regs[0]) if call_name(c) == "register_component"][0]
        wv = kwarg(c, "weight", 1)
        cv = ldi.expand(kwarg(c, "component", 0)) if kwarg(c, "component", 0) is not None else None
        ok_w = wv is not None and unparse(wv) == f"{var}.weight"
        ok_c = isinstance(cv, ast.Call) and f"{var}.options" in unparse(cv)
        cls_src = ldi.expand(cv.func) if isinstance(cv, ast.Call) else None
        ok_t = cls_src is not None and f"{var}.type" in unparse(cls_src)
        ok_i = ok_w and ok_c and ok_t
        det = f"register_component(component={unparse(cv)[:50]}, weight={unparse(wv)}) with class {unparse(cls_src)[:50]}"
    else:
        det = "a configured component can be left unregistered"
    ctx.record(R, ctx.key(init, "every configured component is registered with its weight"), init.loc(lp.ast), ok_i, det, w)
    # update_reward
    ur = ix.method("AbstractAgent.update_reward")
    gu = CFG(ur.node)
    un = [n for n in gu.nodes if any(call_name(c) == "update" and unparse(c.func.value) == "self.reward_function" for c in node_calls(n))]
    lo, hi = gu.count_range(lambda n: n in un)
    if not un:
        ctx.fail(R, ctx.key(ur, "passes state and history[-1]"), ur.loc(), "update_reward no longer calls self.reward_function.update")
    else:
        c = [c for c in node_calls(un[0]) if call_name(c) == "update"][0]
        ldu = LocalDefs(ur.node)
        st, la = kwarg(c, "state", 0), kwarg(c, "last_action_response", 1)
        la = ldu.expand(la) if la is not None else None
        up = [a.arg for a in ur.node.args.args]
        ok_s = isinstance(st, ast.Name) and len(up) > 1 and st.id == up[1]
        ok_l = isinstance(la, ast.Subscript) and unparse(la.value) == "self.history" and const_value(la.slice) == (True, -1)
        ctx.record(R, ctx.key(ur, "passes state and history[-1]"), ur.loc(un[0].ast), ok_s and ok_l and (lo, hi) == (1, 1),
                   f"reward_function.update(state={unparse(st)}, last_action_response={unparse(la)}), {lo}..{hi} times per call")
    sv = ix.method("AbstractAgent.save_reward_to_history")
    ok_sv = False
    for n in walk_shallow(sv.node):
        if isinstance(n, ast.Assign) and len(n.targets) == 1 and isinstance(n.targets[0], ast.Attribute) and n.targets[0].attr == "reward":
            t = n.targets[0].value
            ok_sv = isinstance(t, ast.Subscript) and unparse(t.value) == "self.history" and const_value(t.slice) == (True, -1) \
                and unparse(n.value) == "self.reward_function.current_reward"
    ctx.record(R, ctx.key(sv, "history[-1].reward = current_reward"), sv.loc(), ok_sv,
               "the step reward is recorded on the agent's latest history item")


# --------------------------------------------------------------------------------------------------- R10.2
def _agent_alias(expr: ast.AST, ld: LocalDefs, key_name: str) -> bool:
    """expr denotes self.agents[<key_name>] (directly or through a single-assignment local)."""
    e = ld.expand(expr)
    return isinstance(e, ast.Subscript) and unparse(e.value) == "self.agents" and isinstance(e.slice, ast.Name) and e.slice.id == key_name


def r10_2(ctx: Ctx) -> None:
    ix = ctx.ix
    R = "R10.2"
    ctx.rule(R, "update_agents iterates _reward_calculation_order forwards; reward update runs iff step_counter >= 1; "
                "update_reward before save_reward_to_history; total_reward += current_reward exactly once per agent per call")
    fn = ix.method("PrimaiteGame.update_agents")
    g = CFG(fn.node)
    ld = LocalDefs(fn.node)
    loops = [n for n in g.nodes if n.kind == "for"]
    upd_all = nodes_calling(g, ["update_reward"])
    if not upd_all:
        raise AnalysisError("R10.2: update_agents no longer calls update_reward")
    outer = [l for l in loops if any(l.ast in u.loops for u in upd_all)]
    if len(outer) != 1 or any(len(u.loops) != 1 for u in upd_all):
        raise AnalysisError("R10.2: update_reward is not called from exactly one un-nested loop in update_agents")
    loop = outer[0]
    it = ld.expand(loop.ast.iter)
    it_s = _strip_list(it)
    txt = unparse(it_s)
    if txt == "self._reward_calculation_order":
        ctx.ok(R, ctx.key(fn, "iterates the reward calculation order"), fn.loc(loop.ast), f"for {unparse(loop.ast.target)} in {unparse(loop.ast.iter)}")
    elif "self.agents" in txt or _is_reversal(it) or _is_reversal(it_s) or "_reward_calculation_order" in txt:
        ctx.fail(R, ctx.key(fn, "iterates the reward calculation order"), fn.loc(loop.ast),
                 f"rewards are evaluated in the order of `{unparse(loop.ast.iter)}`, not dependencies-first")
    else:
        raise AnalysisError(f"R10.2: cannot classify the iteration source `{unparse(loop.ast.iter)}` of update_agents")
    key = _loop_var_name(loop)
    if key is None:
        raise AnalysisError("R10.2: loop target of update_agents is not a single name")

    def on_agent(names: Sequence[str]) -> List[CNode]:
        out = []
        for n in g.nodes:
            if loop.ast not in n.loops:
                continue
            for c in node_calls(n):
                if call_name(c) in names and isinstance(c.func, ast.Attribute):
                    if not _agent_alias(c.func.value, ld, key):
                        raise AnalysisError(f"R10.2: receiver of {unparse(c.func)} is not self.agents[{key}]")
                    out.append(n)
        return out

    upd = on_agent(["update_reward"])
    sav = on_agent(["save_reward_to_history"])
    # truth table of the gate over the step counter
    conds = [n for n in g.nodes if n.kind == "cond" and loop.ast in n.loops]
    table = []
    bad = []
    for v in (0, 1, 2, 9):
        ev = Evaluator({"self.step_counter": v}, ld)
        vals = {}
        for cnd in conds:
            x = ev.ev(cnd.ast)
            if x is UNKNOWN:
                raise AnalysisError(f"R10.2: guard `{unparse(cnd.ast)[:60]}` inside the update loop does not depend only on step_counter")
            vals[cnd.id] = bool(x)

        def blocked(e: Edge, vals=vals) -> bool:
            return bool(e.label and e.label[0] == "cond" and e.src.id in vals and vals[e.src.id] != e.label[2])

        start = _body_entry(g, loop)
        reach_u = start.id in {u.id for u in upd} or g.path_avoiding(upd, blocked, start=start, blocked_nodes={loop.id}) is not None
        skip_u = g.path_avoiding([loop], blocked, start=start, blocked_nodes={u.id for u in upd}) is not None and start.id not in {u.id for u in upd}
        runs = "always" if reach_u and not skip_u else "never" if not reach_u else "sometimes"
        table.append(f"step_counter={v}: {runs}")
        want = "never" if v == 0 else "always"
        if runs != want:
            bad.append(f"step_counter={v}: reward update runs {runs}, expected {want}")
    ctx.record(R, ctx.key(fn, "reward update runs iff step_counter >= 1"), fn.loc(upd[0].ast), not bad,
               "; ".join(table) if not bad else "a step's reward is dropped or computed before the first action", bad or None)
    # exactly one update per iteration
    ctx.record(R, ctx.key(fn, "update_reward at most once per agent"), fn.loc(upd[0].ast), len(upd) == 1,
               f"{len(upd)} call site(s) in the loop body")
    # update precedes save
    if not sav:
        ctx.fail(R, ctx.key(fn, "update_reward precedes save_reward_to_history"), fn.loc(), "save_reward_to_history is no longer called")
    for s in sav:
        p = g.path_avoiding([s], lambda e: False, start=_body_entry(g, loop), blocked_nodes={u.id for u in upd} | {loop.id})
        if _body_entry(g, loop).id in {u.id for u in upd}:
            p = None
        ctx.record(R, ctx.key(fn, "update_reward precedes save_reward_to_history"), fn.loc(s.ast), p is None,
                   "within an iteration the history item is stamped only after the reward was recomputed" if p is None else
                   "a stale reward can be written to the history", path_text(p))
    # total += current exactly once per iteration
    accs = []
    for n in g.nodes:
        if n.kind == "stmt" and isinstance(n.ast, ast.AugAssign) and isinstance(n.ast.target, ast.Attribute) and n.ast.target.attr == "total_reward":
            accs.append(n)
    plain = [n for n in _self_attr_stores(g, "total_reward", subject="agent.reward_function") if n not in accs]
    if not accs:
        raise AnalysisError("R10.2: no `total_reward += ...` statement in update_agents")
    a = accs[0]
    t, v = a.ast.target, a.ast.value
    same_agent = (isinstance(v, ast.Attribute) and v.attr == "current_reward" and unparse(v.value) == unparse(t.value)
                  and isinstance(t.value, ast.Attribute) and t.value.attr == "reward_function" and _agent_alias(t.value.value, ld, key))
    # every iteration in which the reward was recomputed must reach the accumulation (an iteration that did not
    # recompute it - step 0 - adds the initial 0, or nothing: both are the same total)
    w = None
    for u in upd:
        if u is a:
            continue
        p = g.path_avoiding([loop], lambda e: False, start=u, blocked_nodes={a.id})
        if p is not None:
            w = path_text(p) or ["(straight-line path from update_reward to the next iteration)"]
    p_exit = g.path_avoiding([g.exit, g.raise_exit], lambda e: False, start=upd[0], blocked_nodes={a.id, loop.id})
    once = len(accs) == 1 and a.loops == (loop.ast,) and w is None and p_exit is None and isinstance(a.ast.op, ast.Add) and not plain
    ctx.record(R, ctx.key(fn, "total_reward += current_reward exactly once per agent per call"), fn.loc(a.ast), once and same_agent,
               f"`{unparse(a.ast)}`: {len(accs)} statement(s), reached in every iteration that recomputed the reward: "
               f"{w is None and p_exit is None}, same agent on both sides: {same_agent}", w or path_text(p_exit))
    # accumulate after the update within an iteration
    p = g.path_avoiding(upd, lambda e: False, start=a, blocked_nodes={loop.id})
    ctx.record(R, ctx.key(fn, "total is advanced after the step reward was recomputed"), fn.loc(a.ast), p is None,
               "no path from the accumulation to update_reward inside one iteration" if p is None else
               "the total is advanced with the previous step's reward", path_text(p))
    n_w = 0
    for s in _stores(ctx, "total_reward"):
        n_w += 1
        ok = s.owner == "PrimaiteGame.update_agents" and s.kind == "aug"
        ctx.record(R, f"{s.path}::{s.owner}::{s.kind} total_reward", s.where, ok,
                   "the only writer of the episode total" if ok else "second writer of the episode total")
    ctx.floor(R, "writers of total_reward", n_w, 1)


# --------------------------------------------------------------------------------------------------- R10.3
def _cond_edges_calling(g: CFG, ld: LocalDefs, name: str) -> List[CNode]:
    out = []
    for n in g.nodes:
        if n.kind == "cond":
            e = ld.expand(n.ast)
            if isinstance(e, ast.Call) and call_name(e) == name:
                out.append(n)
    return out


def _recursive_nested(ctx: Ctx, outer: FuncInfo) -> FuncInfo:
    nested = [f for f in ctx.ix.nested_funcs(outer) if any(call_name(c) == f.name and isinstance(c.func, ast.Name) for c in calls_in(f.node))]
    if len(nested) != 1:
        raise AnalysisError(f"R10.3: {outer.short} is not written as one recursive nested DFS function (iterative or other "
                            f"form cannot be put into the DFS normal form)")
    return nested[0]


def _membership_edge(e: Edge, elem: str, container: str) -> Optional[bool]:
    """If the edge is a test `elem in container` / `elem not in container`: True when the edge means 'is a member'."""
    if not e.label or e.label[0] != "cond":
        return None
    ex = e.label[1]
    if isinstance(ex, ast.Compare) and len(ex.ops) == 1 and isinstance(ex.left, ast.Name) and ex.left.id == elem \
            and isinstance(ex.comparators[0], ast.Name) and ex.comparators[0].id == container:
        if isinstance(ex.ops[0], ast.In):
            return e.label[2]
        if isinstance(ex.ops[0], ast.NotIn):
            return not e.label[2]
    return None


def _neighbour_loop(g: CFG, fn_name: str, graph_param: str, node_param: str) -> CNode:
    loops = [n for n in g.nodes if n.kind == "for" and any(
        call_name(c) == fn_name for x in g.nodes if n.ast in x.loops for c in node_calls(x))]
    if len(loops) != 1:
        raise AnalysisError(f"R10.3: {fn_name} does not recurse from exactly one loop over the neighbours")
    lp = loops[0]
    it = lp.ast.iter
    ok = False
    if isinstance(it, ast.Call) and call_name(it) == "get" and unparse(it.func.value) == graph_param and it.args \
            and unparse(it.args[0]) == node_param:
        d = it.args[1] if len(it.args) > 1 else None
        ok = d is not None and isinstance(d, (ast.List, ast.Tuple, ast.Set)) and not d.elts or (
            isinstance(d, ast.Call) and call_name(d) in ("set", "list", "tuple") and not d.args)
    elif isinstance(it, ast.Subscript) and unparse(it.value) == graph_param and unparse(it.slice) == node_param:
        ok = True
    if not ok:
        raise AnalysisError(f"R10.3: neighbour loop of {fn_name} iterates `{unparse(it)}`, not graph[node] / graph.get(node, [])")
    return lp


def _set_names(fn: FuncInfo) -> List[str]:
    out = []
    for s in fn.node.body:
        tgt = val = None
        if isinstance(s, ast.Assign) and len(s.targets) == 1:
            tgt, val = s.targets[0], s.value
        elif isinstance(s, ast.AnnAssign):
            tgt, val = s.target, s.value
        if isinstance(tgt, ast.Name) and isinstance(val, ast.Call) and call_name(val) == "set" and not val.args:
            out.append(tgt.id)
    return out


def _toposort(ctx: Ctx) -> None:
    R = "R10.3"
    ix = ctx.ix
    fn = ix.module_func(SCIENCE_MOD, "topological_sort")
    dfs = _recursive_nested(ctx, fn)
    gp = fn.node.args.args[0].arg
    np_ = dfs.node.args.args[0].arg
    g = CFG(dfs.node)
    lp = _neighbour_loop(g, dfs.name, gp, np_)
    nb = _loop_var_name(lp)
    sets = _set_names(fn)
    apps = [n for n in g.nodes if n.kind == "stmt" and any(
        call_name(c) in ("append",) and isinstance(c.func.value, ast.Name) for c in node_calls(n))]
    ins = [n for n in g.nodes if any(call_name(c) == "insert" for c in node_calls(n))]
    if ins or len(apps) != 1:
        raise AnalysisError("R10.3: topological_sort's DFS does not build its result with exactly one list.append()")
    app = apps[0]
    acall = [c for c in node_calls(app) if call_name(c) == "append"][0]
    res_name = acall.func.value.id
    ok_arg = len(acall.args) == 1 and unparse(acall.args[0]) == np_
    post = g.path_avoiding([app], lambda e: _is_exhausted_edge(e, lp)) is None and not app.loops
    lo, hi = g.count_range(lambda n: n is app)
    # every non-early-return path appends: the only way to reach exit without append is the `node in visited` edge
    vis = [s for s in sets if any(_membership_edge(e, np_, s) is not None for e in g.edges())]
    if len(vis) != 1:
        raise AnalysisError("R10.3: topological_sort's DFS has no single `node in visited` test")
    visited = vis[0]
    p = g.path_avoiding([g.exit], lambda e: _membership_edge(e, np_, visited) is True, blocked_nodes={app.id})
    ctx.record(R, ctx.key(dfs, "post-order: node appended once, after the loop over its neighbours"), dfs.loc(app.ast),
               ok_arg and post and hi == 1 and p is None,
               f"`{unparse(app.ast)}` reached only past the exhausted neighbour loop: {post}; at most once per call: {hi == 1}; "
               f"skipped only for an already visited node: {p is None}", path_text(p))
    # visited.add(node) on every path that appends (else a node shared by two dependants is listed twice)
    marks = [n for n in g.nodes if any(call_name(c) == "add" and unparse(c.func.value) == visited and c.args and unparse(c.args[0]) == np_
                                       for c in node_calls(n))]
    p = g.path_avoiding([app], lambda e: False, blocked_nodes={m.id for m in marks})
    ctx.record(R, ctx.key(dfs, "a node is marked visited before it is appended"), dfs.loc(), bool(marks) and p is None,
               "visited.add(node) lies on every path to the append (each agent appears once in the order)" if marks and p is None
               else "a node can be appended without being marked: it would be listed (and rewarded) twice", path_text(p))
    # early return for visited nodes does not append
    p = g.path_avoiding([app], lambda e: _membership_edge(e, np_, visited) is False)
    ctx.record(R, ctx.key(dfs, "an already visited node is not appended again"), dfs.loc(), p is None,
               "the append is reached only on the `node not in visited` edge" if p is None else "append without the visited test",
               path_text(p))
    # every neighbour is recursed into
    rec = [n for n in g.nodes if lp.ast in n.loops and any(call_name(c) == dfs.name and c.args and unparse(c.args[0]) == nb for c in node_calls(n))]
    w = _skip_witness(g, lp, rec, allowed=lambda e: _membership_edge(e, nb or "", visited) is True) if rec else ["no recursive call on the loop variable"]
    ctx.record(R, ctx.key(dfs, "recurses into every neighbour"), dfs.loc(lp.ast), w is None and not _early_exits(g, lp),
               "every iteration calls dfs(neighbour) (or skips an already visited one); no early exit" if w is None else
               "a dependency can be left out of the order", w)
    # outer driver
    go = CFG(fn.node)
    ldo = LocalDefs(fn.node)
    ol = [n for n in go.nodes if n.kind == "for" and unparse(_strip_list(n.ast.iter)) in (gp, f"{gp}.keys()")]
    if len(ol) != 1:
        raise AnalysisError("R10.3: topological_sort has no single loop over the graph's keys")
    ov = _loop_var_name(ol[0])
    rec = [n for n in go.nodes if ol[0].ast in n.loops and any(call_name(c) == dfs.name and c.args and unparse(c.args[0]) == ov for c in node_calls(n))]
    w = _skip_witness(go, ol[0], rec, allowed=lambda e: _membership_edge(e, ov or "", visited) is True) if rec else ["dfs is not started from the loop variable"]
    ctx.record(R, ctx.key(fn, "DFS is started from every key"), fn.loc(ol[0].ast), w is None and not _early_exits(go, ol[0]),
               "for node in graph: dfs(node) without skip" if w is None else "an agent can be missing from the order", w)
    rets = [n for n in go.nodes if n.kind == "stmt" and isinstance(n.ast, ast.Return)]
    if len(rets) != 1 or go.falls_through:
        raise AnalysisError("R10.3: topological_sort does not end in a single return")
    rv = rets[0].ast.value
    if isinstance(rv, ast.Name) and rv.id != res_name:
        rv = ldo.expand(rv)
    rv_s = _strip_list(rv) if rv is not None else None
    rev_calls = [c for c in calls_in(fn.node) if call_name(c) == "reverse"]
    if rv is not None and (_is_reversal(rv) or _is_reversal(rv_s) or rev_calls):
        ctx.fail(R, ctx.key(fn, "returns the post-order unreversed"), fn.loc(rets[0].ast),
                 f"`return {unparse(rets[0].ast.value)}` reverses the post-order: dependants would come before their dependencies")
    elif isinstance(rv_s, ast.Name) and rv_s.id == res_name:
        after = go.path_avoiding(rets, lambda e: _is_exhausted_edge(e, ol[0])) is None
        ctx.record(R, ctx.key(fn, "returns the post-order unreversed"), fn.loc(rets[0].ast), after,
                   f"returns `{res_name}`, the list the DFS appends to, after the driver loop is exhausted")
    else:
        raise AnalysisError(f"R10.3: cannot classify `return {unparse(rets[0].ast.value)}` of topological_sort")


def _returns_reachable(g: CFG, start: CNode) -> List[CNode]:
    reach = g.reachable(start)
    return [n for n in g.nodes if n.id in reach and n.kind == "stmt" and isinstance(n.ast, ast.Return)]


def _is_true(e: Optional[ast.AST]) -> bool:
    return isinstance(e, ast.Constant) and e.value is True


def _is_false(e: Optional[ast.AST]) -> bool:
    return isinstance(e, ast.Constant) and e.value is False


def _has_cycle(ctx: Ctx) -> None:
    R = "R10.3"
    ix = ctx.ix
    fn = ix.module_func(SCIENCE_MOD, "graph_has_cycle")
    dfs = _recursive_nested(ctx, fn)
    gp = fn.node.args.args[0].arg
    np_ = dfs.node.args.args[0].arg
    g = CFG(dfs.node)
    ld = LocalDefs(dfs.node)
    lp = _neighbour_loop(g, dfs.name, gp, np_)
    nb = _loop_var_name(lp)
    sets = _set_names(fn)
    removed = [s for s in sets if any(call_name(c) in ("remove", "discard") and unparse(c.func.value) == s for c in calls_in(dfs.node))]
    tested = [s for s in sets if any(_membership_edge(e, np_, s) is not None for e in g.edges())]
    # the recursion-stack set: the one nodes are taken out of again; if nothing is ever removed, the tested set whose
    # membership answers `True`
    if len(removed) == 1:
        onstack = removed[0]
    else:
        cands = [s for s in tested if all(_is_true(r.ast.value) for e in g.edges() if _membership_edge(e, np_, s) is True
                                          for r in _returns_reachable(g, e.dst))]
        if len(cands) != 1:
            ctx.fail(R, ctx.key(dfs, "back edge (node on the recursion stack) returns True"), dfs.loc(),
                     "no membership test on the DFS argument answers `True`: a cycle is never recognised")
            return
        onstack = cands[0]
    rets = [n for n in g.nodes if n.kind == "stmt" and isinstance(n.ast, ast.Return)]
    for r in rets:
        if not (_is_true(r.ast.value) or _is_false(r.ast.value)):
            raise AnalysisError(f"R10.3: `{unparse(r.ast)}` in graph_has_cycle's DFS is not a constant boolean return")
    if g.falls_through:
        ctx.fail(R, ctx.key(dfs, "every path returns a boolean"), dfs.loc(), "the DFS can fall off its end (returns None = falsy)")
    # (a) back edge
    back_true = [e for e in g.edges() if _membership_edge(e, np_, onstack) is True]
    if not back_true:
        ctx.fail(R, ctx.key(dfs, "back edge (node on the recursion stack) returns True"), dfs.loc(),
                 f"no `{np_} in {onstack}` test: a cycle is never recognised")
    else:
        rs = [r for e in back_true for r in _returns_reachable(g, e.dst)]
        ok = bool(rs) and all(_is_true(r.ast.value) for r in rs) and all(g.exit.id not in g.reachable(e.dst, blocked=lambda x: False) or rs for e in back_true)
        ctx.record(R, ctx.key(dfs, "back edge (node on the recursion stack) returns True"), dfs.loc(back_true[0].src.ast), ok,
                   f"on `{np_} in {onstack}` every reachable return is `return True`" if ok else "a back edge does not report a cycle")
    # (b) no non-True return without having seen `node not in onstack`
    nontrue = [r for r in rets if not _is_true(r.ast.value)]
    p = g.path_avoiding(nontrue, lambda e: _membership_edge(e, np_, onstack) is False)
    ctx.record(R, ctx.key(dfs, "recursion-stack test precedes every `return False`"), dfs.loc(), p is None,
               "no `return False` (e.g. the visited shortcut) is reachable before the back-edge test" if p is None else
               "a node on the recursion stack can be answered `False` by an earlier test: cycles through it go undetected", path_text(p))
    # (c) push before recursion, pop only after the loop
    rec = [n for n in g.nodes if any(call_name(c) == dfs.name and c.args and unparse(c.args[0]) == nb for c in node_calls(n))]
    if not rec:
        raise AnalysisError("R10.3: graph_has_cycle's DFS does not recurse on the neighbour loop variable")
    push = [n for n in g.nodes if any(call_name(c) == "add" and unparse(c.func.value) == onstack and c.args and unparse(c.args[0]) == np_
                                      for c in node_calls(n))]
    pop = [n for n in g.nodes if any(call_name(c) in ("remove", "discard") and unparse(c.func.value) == onstack and c.args
                                     and unparse(c.args[0]) == np_ for c in node_calls(n))]
    p1 = g.path_avoiding(rec, lambda e: False, blocked_nodes={n.id for n in push})
    p2 = g.path_avoiding(pop, lambda e: _is_exhausted_edge(e, lp)) if pop else []
    p3 = g.path_avoiding(rec, lambda e: False, start=pop[0]) if pop else None
    ctx.record(R, ctx.key(dfs, "node is on the recursion stack exactly while its neighbours are explored"), dfs.loc(),
               bool(push) and p1 is None and bool(pop) and p2 is None and p3 is None,
               f"{onstack}.add(node) dominates the recursion: {bool(push) and p1 is None}; removal only past the exhausted loop: "
               f"{bool(pop) and p2 is None}", path_text(p1 or p2 or p3))
    # removal on every `return False` that follows the loop (else a finished node looks like a back edge later)
    for e in [e for e in g.edges() if _is_exhausted_edge(e, lp)]:
        p = g.path_avoiding([r for r in rets if _is_false(r.ast.value)], lambda x: False, start=e.dst, blocked_nodes={n.id for n in pop})
        if e.dst.id in {n.id for n in pop}:
            p = None
        ctx.record(R, ctx.key(dfs, "finished node is taken off the recursion stack"), dfs.loc(), p is None,
                   "every `return False` after the neighbour loop passes the removal" if p is None else
                   "a fully explored node stays on the stack: a later visit through another parent is reported as a cycle",
                   path_text(p))
    # visited marked before recursion (termination on cyclic input is what this function exists for)
    vis = [s for s in sets if s != onstack and any(_membership_edge(e, np_, s) is not None for e in g.edges())]
    if len(vis) == 1:
        vmark = [n for n in g.nodes if any(call_name(c) == "add" and unparse(c.func.value) == vis[0] and c.args and unparse(c.args[0]) == np_
                                           for c in node_calls(n))]
        p = g.path_avoiding(rec, lambda e: False, blocked_nodes={n.id for n in vmark})
        ctx.record(R, ctx.key(dfs, "node is marked visited before the recursion"), dfs.loc(), bool(vmark) and p is None,
                   "visited.add(node) dominates the recursive calls")
    # (d) recursive result propagated
    rec_conds = []
    for r_ in rec:
        if r_.kind == "stmt" and isinstance(r_.ast, ast.Assign) and isinstance(r_.ast.value, ast.Call) and call_name(r_.ast.value) == dfs.name:
            # result held in a local and tested later: the tests are the (virtual) condition atoms built from this very call
            held = [n for n in g.nodes if n.kind == "cond" and n.virtual and n.ast is r_.ast.value]
            if held:
                rec_conds.extend(held)
                continue
        rec_conds.append(r_)
    for r_ in rec_conds:
        ok = False
        if r_.kind == "cond":
            e = ld.expand(r_.ast)
            if isinstance(e, ast.Call) and call_name(e) == dfs.name:
                tedges = [x for x in g.succ[r_.id] if x.label and x.label[0] == "cond" and x.label[2]]
                rs = [r for x in tedges for r in _returns_reachable(g, x.dst)]
                # the True edge must lead straight to `return True` without re-entering the loop
                p = g.path_avoiding([lp], lambda x: False, start=tedges[0].dst) if tedges else []
                ok = bool(tedges) and p is None and bool(rs) and all(_is_true(r.ast.value) for r in rs)
        else:
            raise AnalysisError(f"R10.3: result of the recursive call `{unparse(r_.ast)[:50]}` is not used as a branch condition")
        ctx.record(R, ctx.key(dfs, "a cycle found deeper is propagated"), dfs.loc(r_.ast), ok,
                   "`if dfs(neighbour): return True`" if ok else "the result of the recursive call is dropped")
    w = _skip_witness(g, lp, rec)
    ctx.record(R, ctx.key(dfs, "recurses into every neighbour"), dfs.loc(lp.ast), w is None and not [
        x for x in _early_exits(g, lp) if not (isinstance(x.ast, ast.Return) and _is_true(x.ast.value))],
               "every iteration explores the neighbour; the loop is left early only by `return True`" if w is None else
               "an edge can be ignored", w)
    # (f) driver
    go = CFG(fn.node)
    ldo = LocalDefs(fn.node)
    ol = [n for n in go.nodes if n.kind == "for" and unparse(_strip_list(n.ast.iter)) in (gp, f"{gp}.keys()")]
    if len(ol) != 1:
        raise AnalysisError("R10.3: graph_has_cycle has no single loop over the graph's keys")
    ov = _loop_var_name(ol[0])
    starts = [n for n in go.nodes if ol[0].ast in n.loops and n.kind == "cond" and isinstance(ldo.expand(n.ast), ast.Call)
              and call_name(ldo.expand(n.ast)) == dfs.name and unparse(ldo.expand(n.ast).args[0]) == ov]
    orets = [n for n in go.nodes if n.kind == "stmt" and isinstance(n.ast, ast.Return)]
    for r in orets:
        if not (_is_true(r.ast.value) or _is_false(r.ast.value)):
            raise AnalysisError(f"R10.3: `{unparse(r.ast)}` in graph_has_cycle is not a constant boolean return")
    w = _skip_witness(go, ol[0], starts) if starts else ["dfs(node) is not tested for the loop variable"]
    ok_t = bool(starts) and all(all(_is_true(r.ast.value) for r in _returns_reachable(go, x.dst)) and _returns_reachable(go, x.dst)
                                and go.path_avoiding([ol[0]], lambda e: False, start=x.dst) is None
                                for s in starts for x in go.succ[s.id] if x.label and x.label[0] == "cond" and x.label[2])
    p = go.path_avoiding([r for r in orets if not _is_true(r.ast.value)], lambda e: _is_exhausted_edge(e, ol[0]))
    ctx.record(R, ctx.key(fn, "every key is a DFS root; True as soon as one finds a cycle; False only after all"), fn.loc(ol[0].ast),
               w is None and ok_t and p is None and not go.falls_through,
               "for node in graph: if dfs(node): return True ... return False" if (w is None and ok_t and p is None) else
               "the driver can miss a component of the graph or drop a positive answer", w or path_text(p))


def r10_3(ctx: Ctx) -> None:
    ix = ctx.ix
    R = "R10.3"
    ctx.rule(R, "sharing graph: every agent a node, edge agent -> agent it reads from (SharedReward only); callback reads "
                "the named agent's current_reward; cycle check raises before the order is stored; order = unreversed DFS "
                "post-order; graph_has_cycle is a recursion-stack DFS; from_config: agents, then setup_reward_sharing, then "
                "update_agents")
    fn = ix.method("PrimaiteGame.setup_reward_sharing")
    g = CFG(fn.node)
    ld = LocalDefs(fn.node)
    chk = _cond_edges_calling(g, ld, "graph_has_cycle")
    ts_nodes = nodes_calling(g, ["topological_sort"])
    if not ts_nodes:
        raise AnalysisError("R10.3: setup_reward_sharing no longer calls topological_sort")
    ts_call = [c for n in ts_nodes for c in node_calls(n) if call_name(c) == "topological_sort"][0]
    if not ts_call.args or not isinstance(ts_call.args[0], ast.Name):
        raise AnalysisError("R10.3: topological_sort is not called on a local graph variable")
    gname = ts_call.args[0].id
    # --- graph construction
    outer = [n for n in g.nodes if n.kind == "for" and unparse(n.ast.iter) in ("self.agents.items()", "self.agents", "self.agents.keys()")]
    if len(outer) != 1:
        raise AnalysisError("R10.3: setup_reward_sharing has no single loop over self.agents")
    ol = outer[0]
    if unparse(ol.ast.iter) == "self.agents.items()":
        name_v, agent_v = _loop_var_name(ol, 0), _loop_var_name(ol, 1)
    else:
        name_v, agent_v = _loop_var_name(ol), None
    if name_v is None:
        raise AnalysisError("R10.3: cannot identify the agent-name variable of the loop over self.agents")
    node_stores = [n for n in g.nodes if n.kind == "stmt" and ol.ast in n.loops and isinstance(n.ast, ast.Assign) and any(
        isinstance(t, ast.Subscript) and unparse(t.value) == gname and unparse(t.slice) == name_v for t in n.ast.targets)]
    gdef = ld.expand(ast.Name(id=gname, ctx=ast.Load()))
    if node_stores:
        w = _skip_witness(g, ol, node_stores)
        empty = all(isinstance(n.ast.value, ast.Call) and call_name(n.ast.value) in ("set", "list") and not n.ast.value.args
                    or isinstance(n.ast.value, (ast.List, ast.Set)) and not n.ast.value.elts for n in node_stores)
        direct = all(n.loops == (ol.ast,) for n in node_stores)
        ctx.record(R, ctx.key(fn, "every agent is a node of the sharing graph"), fn.loc(node_stores[0].ast),
                   w is None and empty and direct and not _early_exits(g, ol),
                   f"`{unparse(node_stores[0].ast)}` on every iteration over self.agents" if w is None else
                   "an agent can be left out of the graph and would never get a reward update", w)
    elif isinstance(gdef, ast.DictComp) and "self.agents" in unparse(gdef.generators[0].iter) and not gdef.generators[0].ifs:
        ctx.ok(R, ctx.key(fn, "every agent is a node of the sharing graph"), fn.loc(), f"graph = {unparse(gdef)[:70]}")
    else:
        raise AnalysisError("R10.3: cannot see where each agent becomes a key of the sharing graph")
    # inner loop over the agent's components
    inner = [n for n in g.nodes if n.kind == "for" and ol.ast in n.loops and unparse(n.ast.iter).endswith("reward_function.reward_components")]
    if len(inner) != 1:
        raise AnalysisError("R10.3: no single inner loop over <agent>.reward_function.reward_components")
    il = inner[0]
    recv = il.ast.iter.value.value  # <agent>
    ok_recv = (agent_v is not None and isinstance(recv, ast.Name) and recv.id == agent_v) or _agent_alias_in(recv, ld, name_v)
    comp_v = _loop_var_name(il, 0)
    if comp_v is None:
        raise AnalysisError("R10.3: inner loop does not unpack (component, weight)")
    adds = []
    for n in g.nodes:
        for c in node_calls(n):
            if call_name(c) in ("add", "append") and isinstance(c.func.value, ast.Subscript) and unparse(c.func.value.value) == gname:
                adds.append((n, c))
    if not adds:
        # `graph[name] = {dep}` inside the loop over the components replaces the set on every component: only the last dependency stays
        over = [n for n in g.nodes if n.kind == "stmt" and isinstance(n.ast, ast.Assign) and il.ast in n.loops and any(
            isinstance(t, ast.Subscript) and unparse(t.value) == gname for t in n.ast.targets)]
        if over:
            ctx.fail(R, ctx.key(fn, "every SharedReward component, and only those, adds an edge"), fn.loc(over[0].ast),
                     f"`{unparse(over[0].ast)[:70]}` assigns the agent's dependency set anew for each shared-reward component instead of adding to "
                     "it: an agent with several shared rewards keeps only the last dependency, so the order (and the cycle check) ignore the others")
            return
    if len(adds) != 1:
        raise AnalysisError(f"R10.3: expected exactly one `graph[..].add(..)` statement, found {len(adds)}")
    an, ac = adds[0]
    k_txt, v_txt = unparse(ac.func.value.slice), unparse(ac.args[0]) if ac.args else ""
    fwd = k_txt == name_v and v_txt == f"{comp_v}.config.agent_name"
    rev = k_txt == f"{comp_v}.config.agent_name" and v_txt == name_v
    if not fwd and not rev:
        raise AnalysisError(f"R10.3: cannot classify the edge `{unparse(ac)}`")
    ctx.record(R, ctx.key(fn, "edge direction: agent -> agent whose reward it reads"), fn.loc(an.ast), fwd and ok_recv,
               f"`{unparse(ac)}` inside the loop over {unparse(il.ast.iter)}" + ("" if fwd else
               " - reversed: the post-order would then evaluate a reader before the agent it reads from"))
    # isinstance guard: exactly the SharedReward components add an edge
    def is_shared(e: Edge) -> Optional[bool]:
        if e.label and e.label[0] == "cond":
            x = ld.expand(e.label[1])
            if isinstance(x, ast.Call) and call_name(x) == "isinstance" and len(x.args) == 2 and unparse(x.args[0]) == comp_v \
                    and unparse(x.args[1]) == "SharedReward":
                return e.label[2]
        return None

    guarded = g.path_avoiding([an], lambda e: is_shared(e) is True) is None
    tedges = [e for e in g.edges() if is_shared(e) is True]
    allp = bool(tedges) and all(e.dst is an or g.path_avoiding([il], lambda x: False, start=e.dst, blocked_nodes={an.id}) is None for e in tedges)
    ctx.record(R, ctx.key(fn, "every SharedReward component, and only those, adds an edge"), fn.loc(an.ast),
               guarded and allp and not _early_exits(g, il),
               "the add lies on every path through the isinstance(comp, SharedReward) edge and on no other" if guarded and allp
               else "a sharing dependency can be missing from the graph")
    # callback
    cbs = [n for n in g.nodes if n.kind == "stmt" and isinstance(n.ast, ast.Assign) and any(
        isinstance(t, ast.Attribute) and t.attr == "callback" and unparse(t.value) == comp_v for t in n.ast.targets)]
    if len(cbs) != 1:
        raise AnalysisError("R10.3: no single `comp.callback = ...` store in setup_reward_sharing")
    lam = ld.expand(cbs[0].ast.value)
    if not isinstance(lam, ast.Lambda) or len(lam.args.args) != 1:
        raise AnalysisError("R10.3: SharedReward callback is not a one-argument lambda")
    pnm = lam.args.args[0].arg
    body_ok = unparse(lam.body) == f"self.agents[{pnm}].reward_function.current_reward"
    free = set(names_loaded(lam.body)) - {"self", pnm}
    cb_g = g.path_avoiding(cbs, lambda e: is_shared(e) is True) is None and (
        all(e.dst is cbs[0] or g.path_avoiding([il], lambda x: False, start=e.dst, blocked_nodes={cbs[0].id}) is None for e in tedges))
    ctx.record(R, ctx.key(fn, "callback reads the named agent's current step reward"), fn.loc(cbs[0].ast), body_ok and not free and cb_g,
               f"callback = {unparse(lam)[:90]}; captured loop variables: {sorted(free) or 'none'}; installed on every SharedReward: {cb_g}")
    sr = ix.method("SharedReward.calculate")
    rets = [n for n in walk_shallow(sr.node) if isinstance(n, ast.Return)]
    ok_sr = len(rets) == 1 and unparse(rets[0].value) == "self.callback(self.config.agent_name)"
    ctx.record(R, ctx.key(sr, "returns callback(configured agent name)"), sr.loc(), ok_sr, f"return {unparse(rets[0].value) if rets else '?'}")
    # --- cycle check gates the order
    if not chk:
        ctx.fail(R, ctx.key(fn, "graph_has_cycle consulted; RuntimeError on the true edge"), fn.loc(), "graph_has_cycle is not used as a branch condition")
    stores = _self_attr_stores(g, "_reward_calculation_order")
    if not stores:
        raise AnalysisError("R10.3: setup_reward_sharing does not store _reward_calculation_order")
    for c in chk:
        call = ld.expand(c.ast)
        same_graph = bool(call.args) and unparse(call.args[0]) == gname
        tedge = [e for e in g.succ[c.id] if e.label and e.label[0] == "cond" and e.label[2]]
        reach = g.reachable(tedge[0].dst) if tedge else set()
        raises = [n for n in g.nodes if n.id in reach and n.kind == "stmt" and isinstance(n.ast, ast.Raise)]
        ok_raise = bool(tedge) and g.exit.id not in reach and bool(raises) and all(
            r.ast.exc is not None and unparse(r.ast.exc.func if isinstance(r.ast.exc, ast.Call) else r.ast.exc) == "RuntimeError" for r in raises) \
            and g.raise_exit.id in reach
        ctx.record(R, ctx.key(fn, "graph_has_cycle consulted; RuntimeError on the true edge"), fn.loc(c.ast), same_graph and ok_raise,
                   f"`{unparse(call)}` true edge: normal exit unreachable: {g.exit.id not in reach}, raises {[unparse(r.ast.exc)[:30] for r in raises]}")
        # after the graph is complete
        p = g.path_avoiding([c], lambda e: _is_exhausted_edge(e, ol))
        ctx.record(R, ctx.key(fn, "cycle check runs on the complete graph"), fn.loc(c.ast), p is None,
                   "the check is reached only after the loop over all agents is exhausted" if p is None else "the check can run on a partial graph")

    def acyclic_edge(e: Edge) -> bool:
        return bool(e.label and e.label[0] == "cond" and any(e.src is c for c in chk) and e.label[2] is False)

    p = g.path_avoiding(stores, acyclic_edge)
    lo, hi = g.count_range(lambda n: n in stores)
    ctx.record(R, ctx.key(fn, "order is stored only past the acyclic edge, once"), fn.loc(stores[0].ast), p is None and (lo, hi) == (1, 1),
               f"store reached only on `graph_has_cycle(...)` False: {p is None}; executed {lo}..{hi} times on a normally returning call",
               path_text(p))
    v = ld.expand(stores[0].ast.value)
    vs = _strip_list(v)
    if _is_reversal(v) or _is_reversal(vs):
        ctx.fail(R, ctx.key(fn, "order = topological_sort(graph), unreversed"), fn.loc(stores[0].ast),
                 f"`{unparse(stores[0].ast)}` reverses the dependencies-first order")
    elif isinstance(vs, ast.Call) and call_name(vs) == "topological_sort" and vs.args and unparse(vs.args[0]) == gname:
        ctx.ok(R, ctx.key(fn, "order = topological_sort(graph), unreversed"), fn.loc(stores[0].ast), unparse(stores[0].ast))
    else:
        raise AnalysisError(f"R10.3: cannot classify `{unparse(stores[0].ast)}`")
    n_w = 0
    for s in _stores(ctx, "_reward_calculation_order"):
        n_w += 1
        ok = s.owner in ("PrimaiteGame.__init__", "PrimaiteGame.setup_reward_sharing") and s.kind in ("assign", "ann")
        ctx.record(R, f"{s.path}::{s.owner}::{s.kind} _reward_calculation_order", s.where, ok,
                   "constructor default / the sharing setup" if ok else "the evaluation order is modified elsewhere (e.g. reversed or re-sorted)")
    ctx.floor(R, "writers of _reward_calculation_order", n_w, 2)
    _toposort(ctx)
    _has_cycle(ctx)
    # --- from_config
    fc = ix.method("PrimaiteGame.from_config")
    gf = CFG(fc.node)
    setup = nodes_calling(gf, ["setup_reward_sharing"])
    upd = nodes_calling(gf, ["update_agents"])
    if not setup:
        ctx.fail(R, ctx.key(fc, "setup_reward_sharing before the first update_agents"), fc.loc(), "from_config no longer calls setup_reward_sharing")
        return
    lo, hi = gf.count_range(lambda n: n in setup)
    dom = gf.dominators()
    ok = (lo, hi) == (1, 1) and all(any(s.id in dom.get(u.id, set()) for s in setup) for u in upd)
    ctx.record(R, ctx.key(fc, "setup_reward_sharing before the first update_agents"), fc.loc(setup[0].ast), ok,
               f"setup_reward_sharing called {lo}..{hi} times; dominates update_agents: {ok}")
    agent_stores = [n for n in gf.nodes if n.kind == "stmt" and isinstance(n.ast, ast.Assign) and any(
        isinstance(t, ast.Subscript) and isinstance(t.value, ast.Attribute) and t.value.attr == "agents" for t in n.ast.targets)]
    if not agent_stores:
        raise AnalysisError("R10.3: from_config no longer stores into game.agents[...]")
    recvs = {unparse(c.func.value) for n in setup + upd for c in node_calls(n) if call_name(c) in ("setup_reward_sharing", "update_agents")}
    recvs |= {unparse(t.value.value) for n in agent_stores for t in n.ast.targets if isinstance(t, ast.Subscript)}
    loops = [n for n in gf.nodes if n.kind == "for" and any(n.ast in a.loops for a in agent_stores)]
    after = all(gf.path_avoiding([s], lambda e: any(_is_exhausted_edge(e, l) for l in loops)) is None for s in setup)
    none_later = all(gf.path_avoiding(agent_stores, lambda e: False, start=s) is None for s in setup)
    ctx.record(R, ctx.key(fc, "all agents exist when the sharing graph is built"), fc.loc(setup[0].ast),
               after and none_later and len(recvs) == 1,
               f"setup is reached only after the agent-building loop is exhausted: {after}; no agent is added afterwards: {none_later}; "
               f"one game object: {sorted(recvs)}")
    n_a = 0
    for s in _stores(ctx, "agents"):
        if s.path != GAME_PATH and "game" not in unparse(s.recv):
            continue
        n_a += 1
        ok = s.owner in ("PrimaiteGame.__init__", "PrimaiteGame.from_config")
        ctx.record(R, f"{s.path}::{s.owner}::{s.kind} agents", s.where, ok,
                   "agents are created by the constructor/from_config only" if ok else
                   "an agent added after setup_reward_sharing is not in the evaluation order")
    ctx.floor(R, "writers of PrimaiteGame.agents", n_a, 2)
    n_c = 0
    for cs in call_sites(ix, ["setup_reward_sharing"]):
        n_c += 1
    ctx.floor(R, "callers of setup_reward_sharing", n_c, 1)


def _agent_alias_in(expr: ast.AST, ld: LocalDefs, key_name: str) -> bool:
    return _agent_alias(expr, ld, key_name)


# --------------------------------------------------------------------------------------------------- R10.4
def _sticky_value(e: Edge, ld: LocalDefs) -> Optional[bool]:
    """If the edge is a branch on the `sticky` option: the value of the option on this edge."""
    if not e.label or e.label[0] != "cond":
        return None
    ex = ld.expand(e.label[1])
    pol = e.label[2]
    if isinstance(ex, ast.Attribute) and ex.attr == "sticky":
        return pol
    if isinstance(ex, ast.Compare) and len(ex.ops) == 1:
        l, r = ex.left, ex.comparators[0]
        if isinstance(r, ast.Attribute) and r.attr == "sticky":
            l, r = r, l
        if isinstance(l, ast.Attribute) and l.attr == "sticky" and isinstance(r, ast.Constant) and isinstance(r.value, bool):
            if isinstance(ex.ops[0], (ast.Eq, ast.Is)):
                return pol == r.value
            if isinstance(ex.ops[0], (ast.NotEq, ast.IsNot)):
                return pol != r.value
    if "sticky" in unparse(ex):
        raise AnalysisError(f"R10.4: cannot normalise the sticky test `{unparse(ex)[:60]}`")
    return None


def _absent_edge(e: Edge, ld: LocalDefs) -> bool:
    """Edge on which `<x> is NOT_PRESENT_IN_STATE` holds."""
    if not e.label or e.label[0] != "cond":
        return False
    ex = ld.expand(e.label[1])
    if isinstance(ex, ast.Compare) and len(ex.ops) == 1:
        sides = [unparse(ex.left), unparse(ex.comparators[0])]
        if "NOT_PRESENT_IN_STATE" in sides:
            if isinstance(ex.ops[0], (ast.Is, ast.Eq)):
                return e.label[2] is True
            if isinstance(ex.ops[0], (ast.IsNot, ast.NotEq)):
                return e.label[2] is False
    return False


def sticky_classes(ctx: Ctx) -> List[ClassInfo]:
    ix = ctx.ix
    out = []
    for c in ix.subclasses(ix.cls("AbstractReward")):
        cs = c.nested.get("ConfigSchema")
        if cs is not None and "sticky" in cs.fields:
            out.append(c)
    return out


def r10_4(ctx: Ctx) -> None:
    ix = ctx.ix
    R = "R10.4"
    ctx.rule(R, "sticky components: no store of the remembered value on a path through the sticky edge (except the "
                "absent-from-state reset) and that value is returned; every path through the not-sticky edge ends with the "
                "remembered value = constant 0; a qualifying event updates the value without consulting the flag")
    classes = sticky_classes(ctx)
    ctx.floor(R, "reward components with a `sticky` option", len(classes), 3)
    n_resp = [0]
    for c in classes:
        if "calculate" not in c.methods:
            raise AnalysisError(f"R10.4: {c.short} has a sticky option but no own calculate()")
        fn = c.methods["calculate"]
        g = CFG(fn.node)
        ld = LocalDefs(fn.node)
        if any(n.kind == "for" for n in g.nodes) or any(isinstance(x, ast.While) for x in walk_shallow(fn.node)):
            raise AnalysisError(f"R10.4: {fn.short} contains a loop; the acyclic path analysis does not apply")
        # every mention of the option must be a branch condition
        cond_mentions = sum(1 for n in g.nodes if n.kind == "cond" and "sticky" in unparse(ld.expand(n.ast)))
        all_mentions = sum(1 for x in walk_shallow(fn.node) if isinstance(x, ast.Attribute) and x.attr == "sticky")
        if all_mentions == 0:
            ctx.fail(R, ctx.key(fn, "sticky option is consulted"), fn.loc(), "calculate() never reads its `sticky` option")
            continue
        if all_mentions != cond_mentions:
            raise AnalysisError(f"R10.4: {fn.short} uses `sticky` outside a branch condition")
        s_true = [e for e in g.edges() if _sticky_value(e, ld) is True]
        s_false = [e for e in g.edges() if _sticky_value(e, ld) is False]
        sticky_nodes = {e.src.id for e in s_true + s_false}
        stores = _self_attr_stores(g, "reward")
        if not stores:
            raise AnalysisError(f"R10.4: {fn.short} never stores self.reward (remembered value not identified)")
        exempt = [s for s in stores if g.path_avoiding([s], lambda e: _absent_edge(e, ld)) is None]
        for s in exempt:
            ctx.note(f"R10.4 {fn.short}: `{unparse(s.ast)}` at {fn.loc(s.ast)} is an absent-from-state reset (exempt from the sticky rule)")
            if not (isinstance(s.ast, ast.Assign) and _is_zero(s.ast.value)):
                raise AnalysisError(f"R10.4: absent-from-state store in {fn.short} is not a reset to 0")
        live = [s for s in stores if s not in exempt]
        # (A) sticky edge: untouched + returned
        wit = None
        for e in s_true:
            before = g.reachable()  # entry-reachable
            for s in live:
                to_edge = e.src.id in g.reachable(s)
                from_edge = s.id in g.reachable(e.dst) or s is e.dst
                if (to_edge and s.id in before) or from_edge:
                    wit = [f"{e.describe()}", f"store `{unparse(s.ast)[:60]}` at L{s.lineno} lies on a path through that edge"]
        rets_ok = all(r.ast.value is not None and unparse(r.ast.value) == "self.reward" for e in s_true for r in _returns_reachable(g, e.dst))
        no_fall = not g.falls_through
        ctx.record(R, ctx.key(fn, "sticky edge leaves the remembered value untouched and returns it"),
                   fn.loc(s_true[0].src.ast) if s_true else fn.loc(), bool(s_true) and wit is None and rets_ok and no_fall,
                   "no store of self.reward on any path through the sticky edge; every return after it is `return self.reward`"
                   if wit is None and rets_ok else "the value of a sticky component changes without a qualifying event", wit)
        # (B) not-sticky edge: every path ends with reward = 0
        zero = [s for s in stores if isinstance(s.ast, ast.Assign) and _is_zero(s.ast.value)]
        nonzero = [s for s in stores if s not in zero]
        ret0 = [n for n in g.nodes if n.kind == "stmt" and isinstance(n.ast, ast.Return) and _is_zero(n.ast.value)]
        witb = None
        for e in s_false:
            stop = {z.id for z in zero} | {r.id for r in ret0}
            if e.dst.id not in stop:
                p = g.path_avoiding([g.exit], lambda x: False, start=e.dst, blocked_nodes=stop)
                if p is not None:
                    witb = [e.describe()] + path_text(p) + ["... reaches the end of calculate() without `self.reward = 0`"]
            # after the reset no other value may be stored
            for z in zero:
                if z.id in g.reachable(e.dst) or z is e.dst:
                    p2 = g.path_avoiding(nonzero, lambda x: False, start=z)
                    if p2 is not None and nonzero:
                        witb = [e.describe(), f"reset at L{z.lineno} is followed by another store"] + path_text(p2)
        ctx.record(R, ctx.key(fn, "not-sticky edge resets the remembered value to 0"),
                   fn.loc(s_false[0].src.ast) if s_false else fn.loc(), bool(s_false) and witb is None,
                   "every path through the `not sticky` edge passes `self.reward = 0` (and nothing is stored after it)"
                   if witb is None and s_false else
                   "without a qualifying event a non-sticky component can return a value other than 0", witb)
        # (C) event path does not consult the flag
        ev_stores = [s for s in live if g.path_avoiding([s], lambda e: False, blocked_nodes=sticky_nodes) is not None]
        ctx.record(R, ctx.key(fn, "a qualifying event updates the value whatever the flag"), fn.loc(), bool(ev_stores),
                   f"{len(ev_stores)} store(s) of self.reward are reachable without passing the sticky test" if ev_stores else
                   "every update of the value is behind the sticky test")
        # (D) the response of the last action is interpreted only when that action was this component's own request
        def _event_true(e: Edge) -> bool:
            if not (e.label and e.label[0] == "cond"):
                return False
            ex, pol = ld.expand(e.label[1]), e.label[2]
            neg = False
            while isinstance(ex, ast.UnaryOp) and isinstance(ex.op, ast.Not):
                ex, neg = ex.operand, not neg
            if isinstance(ex, ast.Compare) and len(ex.ops) == 1 and isinstance(ex.ops[0], (ast.Eq, ast.NotEq)) \
                    and any(isinstance(x, ast.Attribute) and x.attr == "request" for x in ast.walk(ex)) \
                    and any(isinstance(x, ast.List) for x in (ex.left, ex.comparators[0])):
                if isinstance(ex.ops[0], ast.NotEq):
                    neg = not neg
                return pol is (not neg)
            return False

        resp_nodes = [n for n in g.nodes if n.ast is not None and n.kind in ("stmt", "cond") and any(
            isinstance(x, ast.Attribute) and x.attr == "response" and isinstance(x.value, ast.Name) for x in
            (ast.walk(n.ast) if n.kind == "cond" or not isinstance(n.ast, (ast.If, ast.For, ast.While, ast.FunctionDef)) else []))]
        if resp_nodes:
            n_resp[0] += 1
            if not any(_event_true(e) for e in g.edges()):
                raise AnalysisError(f"R10.4: {fn.short} reads the action's response but no test of the action's request was recognised")
            witd = None
            for rn in resp_nodes:
                p = g.path_avoiding([rn], _event_true)
                if p is not None:
                    witd = [f"`{unparse(rn.ast)[:70]}` at L{rn.lineno} is reached without the request test:"] + path_text(p)
                    break
            ctx.record(R, ctx.key(fn, "the response is read only for the component's own request"), fn.loc(resp_nodes[0].ast), witd is None,
                       "every use of last_action_response.response is behind `last_action_response.request == [... own request ...]`"
                       if witd is None else
                       "the outcome of some other action is taken for this component's event: its value changes (or stops being 0) "
                       "on a step on which the agent made no qualifying request", witd)
            # (E) ... and on its own request the value is recomputed on *every* path (whatever the answer was): a status the branches
            # do not mention (e.g. 'unreachable') must not leave the old value in place
            for ee in [x for x in g.edges() if _event_true(x)]:
                pe = None if ee.dst.id in {s_.id for s_ in live} else g.path_avoiding(
                    [g.exit] + [r for r in g.nodes if r.kind == "stmt" and isinstance(r.ast, ast.Return)], lambda x: False, start=ee.dst,
                    blocked_nodes={s_.id for s_ in live})
                ctx.record(R, ctx.key(fn, "the component's own request always recomputes the value"), fn.loc(ee.label[1]), pe is None,
                           "every path through the own-request edge stores self.reward" if pe is None else
                           "after the agent's own request some outcome leaves the remembered value untouched: the component keeps paying "
                           "(or withholding) what an earlier request earned", path_text(pe))
        fld = c.fields.get("reward")
        ctx.record(R, f"{c.path}::{c.short}::remembered value starts at 0", f"{c.path}:{getattr(fld.node, 'lineno', 0) if fld else 0}",
                   fld is not None and _is_zero(fld.default), f"reward default = {unparse(fld.default) if fld else 'missing'}")
    ctx.floor(R, "components that interpret the action's response", n_resp[0], 2)
    # the remembered value is private to calculate()
    n = 0
    base = ix.cls("AbstractReward")
    by_owner: Dict[Tuple[str, str], List] = {}
    for s in _stores(ctx, "reward"):
        # `self.history[-1].reward = ...` stamps an AgentHistoryItem, a different object (checked in R10.1)
        if s.recv is not None and isinstance(s.recv, ast.Subscript) and unparse(s.recv.value).endswith("history"):
            continue
        if unparse(s.recv) == "self":
            if s.fn is None or s.fn.cls is None or not ix.is_subclass(s.fn.cls, base):
                continue  # some other class's own `reward` attribute
        else:
            rc = recv_class(ix, s.fn, s.recv)
            if rc is None:
                raise AnalysisError(f"R10.4: cannot type the receiver of `{unparse(s.node)[:60]}` at {s.where}")
            if not ix.is_subclass(rc, base):
                continue
        by_owner.setdefault((s.path, s.owner), []).append(s)
    for (path, owner), ss in sorted(by_owner.items()):
        n += len(ss)
        f = ss[0].fn
        ok = f is not None and f.name == "calculate" and all(unparse(s.recv) == "self" for s in ss)
        ctx.record(R, f"{path}::{owner}::stores of the remembered value", ss[0].where, ok,
                   f"{len(ss)} store(s) of self.reward, all inside the component's own calculate()" if ok else
                   "a reward component's memory is written outside its own calculate()")
    ctx.floor(R, "stores of sticky memory", n, 6)


def check(ctx: Ctx) -> None:
    r10_1(ctx)
    r10_2(ctx)
    r10_3(ctx)
    r10_4(ctx)
    from .common import falsy_numeric
    falsy_numeric(ctx, "R10.5", r"weight", "reward weights (a weight of 0 switches a component off)")
    # components read "this step's" values (response codes, execution counts) from the state: they are that only if pre_timestep
    # clears them at the start of every step, whatever state the component is in
    from .common import per_step_resets
    per_step_resets(ctx, "R10.6")
