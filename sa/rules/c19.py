"""C19 - scripted green/red agents act only when and how their settings allow."""
from __future__ import annotations

import ast
import copy
from typing import Callable, Dict, Iterable, List, Optional, Sequence, Set, Tuple

from ..absval import UNKNOWN, Evaluator
from ..astutil import attr_chain, call_name, calls_in, const_value, kwarg, unparse, walk_shallow
from ..cfg import CFG, CNode, Edge, LocalDefs, expand_test, path_text
from ..index import AnalysisError, ClassInfo, FuncInfo
from ..inventory import call_sites, stores_to_attr
from ..report import Ctx
from .common import node_calls, nodes_calling

EXPLANATION = (
    "Static analysis of the scripted agents (PeriodicAgent, DataManipulationAgent, ProbabilisticAgent, AbstractTAP, "
    "TAP001, TAP003). Decided: R19.1 in every get_action of an agent with a next_execution_timestep a return other "
    "than ('do-nothing', {}) is unreachable while timestep < next_execution_timestep, reachable when the two are "
    "equal, unreachable for TAPs once actions_concluded, and - for agents with a max_executions setting - unreachable "
    "when num_executions >= max_executions, with num_executions advanced by exactly 1 on every emitting path (truth "
    "tables of the guards over finite order domains); every emitting path reschedules; R19.2 every "
    "_set_next_execution_timestep stores <passed timestep> + random.randint(-v, v) with the same v on both bounds and "
    "is the only writer of next_execution_timestep; every call site passes timestep + agent_settings.frequency (with "
    "agent_settings.variance) inside get_action and agent_settings.start_step (with start_variance or 0) at set-up; "
    "R19.3 node names in emitted actions are self.start_node / self.current_host / self.starting_node, which are "
    "stored only from the configured start-node list, the default starting node or the configured C2 server, and the "
    "periodic agents' application is agent_settings.target_application; R19.4 every store to a kill-chain stage field "
    "has a right-hand side in {initial stage, next, current+1, NOT_STARTED, SUCCEEDED, FAILED} of a *stage* enum, "
    "advancing stores occur only in _progress_kill_chain/_tap_start, every comparison of a stage field is against a "
    "stage enum member and of the progress field against KillChainStageProgress, every stage method acts only past "
    "the test for its own stage and get_action calls the stage methods in descending stage order (so one stage acts "
    "per step); FAILED is stored only where repeat_kill_chain_stages is false (plus three listed internal-error "
    "sites); the end-of-chain handler restarts only on the repeat_kill_chain edge and concludes on the other; R19.5 "
    "the probability vector handed to rng.choice is built in action-index order (not dict insertion order), the count "
    "is the size of the action map, the drawn index is the action returned, the Generator is seeded from the seeded "
    "global numpy source and set_random_seed seeds both global sources; all other random draws of these modules use "
    "the seeded stdlib global; R19.6 the kill-chain return handler reads history[<its timestep parameter>] (never a fixed "
    "position), every caller passes self.current_timestep, which is written only by update_current_timestep and only "
    "after the handler has examined the previous turn. R19.7 the numeric settings this property depends on are never tested by truthiness (`x or default`, `if x:`) - 0 is a legal value for them. "
    "R19.8 name agreement: settings copied into a dictionary literal under string keys keep their own name (no crossed entries). "
    "NOT decided: statistical behaviour of the draws, effects of blue actions on success or "
    "failure of red actions, whether emitted action names are in the configured action map, validity of the "
    "credentials/knowledge TAP003 reads from its options."
)
TECHNIQUE = "static: finite order-domain evaluation of schedule gates, randint-bounds def-use, enum-family typestate of kill-chain stores, probability-vector construction analysis"
ASSUMPTIONS = [
    "numpy Generator.choice(n, p=vector) never returns an index whose p entry is 0",
    "random.seed / numpy.random.seed make later draws from the global sources reproducible",
    "the stage-field IntEnum comparisons follow Python semantics: an IntEnum member never equals a plain Enum member",
]

PKG = "src/primaite/game/agent/scripted_agents/"
SENTINELS = ("NOT_STARTED", "SUCCEEDED", "FAILED")
STAGE_FIELDS = ("current_kill_chain_stage", "next_kill_chain_stage")
PROGRESS_FIELD = "current_stage_progress"
ADVANCING_FUNCS = {"_progress_kill_chain": "advances after a completed stage", "_tap_start": "enters the first stage"}
# FAILED stored without consulting repeat_kill_chain_stages: internal-error branches, one reason each
UNGATED_FAILED_OK = {
    "TAP001._scan_logic_handler": "unreachable-by-design `else` of the scan type ladder (logic error trap)",
    "TAP001._scan_setup_handler": "previous action was do-nothing while a scan was expected (logic error trap)",
    "TAP001._scan_action_handler": "unknown scan type (logic error trap)",
}
NODE_KEYS = ("node_name", "source_node")
_INVENTORY_ATTRS = ("next_execution_timestep", "starting_node", "current_host", "chosen_action", "num_executions",
                    "actions_concluded") + STAGE_FIELDS + (PROGRESS_FIELD,)


# --------------------------------------------------------------------------------------------------- helpers
def _stores(ctx: Ctx, attr: str):
    cache = getattr(ctx, "_c19_stores", None)
    if cache is None:
        cache = stores_to_attr(ctx.ix, _INVENTORY_ATTRS)
        ctx._c19_stores = cache
    return [s for s in cache if s.attr == attr]


def _is_do_nothing(e: Optional[ast.AST]) -> bool:
    return (isinstance(e, ast.Tuple) and len(e.elts) == 2 and isinstance(e.elts[0], ast.Constant) and e.elts[0].value == "do-nothing"
            and isinstance(e.elts[1], ast.Dict) and not e.elts[1].keys)


def _settings_class(ctx: Ctx, c: ClassInfo) -> Optional[ClassInfo]:
    for k in ctx.ix.mro(c):
        if "AgentSettingsSchema" in k.nested:
            return k.nested["AgentSettingsSchema"]
    return None


def _has_setting(ctx: Ctx, c: ClassInfo, name: str) -> bool:
    sc = _settings_class(ctx, c)
    return sc is not None and ctx.ix.find_field(sc, name) is not None


def _has_field(ctx: Ctx, c: ClassInfo, name: str) -> bool:
    return ctx.ix.find_field(c, name) is not None


def scheduled_agents(ctx: Ctx) -> List[Tuple[ClassInfo, FuncInfo]]:
    """(class, own get_action) for every scripted agent class that keeps a next_execution_timestep."""
    ix = ctx.ix
    base = ix.cls("AbstractScriptedAgent")
    out = []
    for c in ix.subclasses(base):
        if "get_action" in c.methods and _has_field(ctx, c, "next_execution_timestep") and not c.methods["get_action"].is_abstract:
            out.append((c, c.methods["get_action"]))
    return out


def _timestep_param(fn: FuncInfo) -> str:
    names = [a.arg for a in fn.node.args.args]
    if "timestep" in names:
        return "timestep"
    raise AnalysisError(f"{fn.short} has no `timestep` parameter")


def _reach_under(g: CFG, ld: LocalDefs, env: Dict[str, object], sinks: Sequence[CNode]) -> Tuple[Optional[List[Edge]], List[str]]:
    """Path entry->sink when every branch whose condition evaluates under env is forced, others left open."""
    ev = Evaluator(env, ld)
    vals: Dict[int, bool] = {}
    unknown = []
    for n in g.nodes:
        if n.kind == "cond":
            x = ev.ev(n.ast)
            if x is UNKNOWN:
                unknown.append(unparse(n.ast)[:50])
            else:
                vals[n.id] = bool(x)

    def blocked(e: Edge) -> bool:
        return bool(e.label and e.label[0] == "cond" and e.src.id in vals and vals[e.src.id] != e.label[2])

    return g.path_avoiding(sinks, blocked), unknown


# --------------------------------------------------------------------------------------------------- R19.1
def r19_1(ctx: Ctx) -> List[Tuple[ClassInfo, FuncInfo]]:
    R = "R19.1"
    ctx.rule(R, "schedule gate: no non-do-nothing return while timestep < next_execution_timestep, possible when equal; "
                "never once actions_concluded (TAPs); never when num_executions >= max_executions and the counter advances "
                "by one per emission (agents with max_executions); every emitting path reschedules")
    agents = scheduled_agents(ctx)
    ctx.floor(R, "get_action implementations with a schedule", len(agents), 4)
    NXT, NUM, MAX, CONC = "self.next_execution_timestep", "self.num_executions", "self.config.agent_settings.max_executions", "self.actions_concluded"
    for c, fn in agents:
        g = CFG(fn.node)
        ld = LocalDefs(fn.node)
        ts = _timestep_param(fn)
        rets = [n for n in g.nodes if n.kind == "stmt" and isinstance(n.ast, ast.Return)]
        if g.falls_through:
            ctx.fail(R, ctx.key(fn, "returns an action on every path"), fn.loc(), "get_action can fall off its end (returns None)")
        sinks = [r for r in rets if not _is_do_nothing(r.ast.value)]
        if not sinks:
            ctx.ok(R, ctx.key(fn, "schedule gate"), fn.loc(), "only ever returns do-nothing", trivial=True)
            continue
        is_tap = _has_field(ctx, c, "actions_concluded")
        has_max = _has_setting(ctx, c, "max_executions")
        base_env = {NUM: 0, MAX: 5}
        if is_tap:
            base_env[CONC] = False
        # timestep order table
        rows, bad = [], []
        # order domain with the neighbours of the boundary, so that an off-by-one (`timestep + 1 < next`) shows as well
        for a, b, rel in ((3, 5, "<"), (4, 5, "<"), (5, 5, "="), (6, 5, ">"), (7, 5, ">")):
            p, unk = _reach_under(g, ld, {**base_env, ts: a, NXT: b}, sinks)
            rows.append(f"timestep-next={a - b:+d}: {'may act' if p is not None else 'do-nothing'}")
            if rel == "<" and p is not None and not bad:
                bad = [f"timestep = next_execution_timestep {a - b:+d}:"] + path_text(p)
            if rel == "=" and p is None and not bad:
                bad = ["timestep = next_execution_timestep: no action can ever be returned"]
        mentions = any(NXT in unparse(n.ast) and ts in unparse(n.ast) for n in g.nodes if n.kind == "cond")
        if not mentions and not bad:
            bad = [f"no branch compares {ts} with {NXT}"]
        ctx.record(R, ctx.key(fn, "no action before next_execution_timestep"), fn.loc(), not bad, "; ".join(rows), bad or None)
        if is_tap:
            p, _ = _reach_under(g, ld, {ts: 5, NXT: 5, CONC: True}, sinks)
            ctx.record(R, ctx.key(fn, "no action once actions_concluded"), fn.loc(), p is None,
                       "with actions_concluded the only reachable return is do-nothing" if p is None else
                       "an agent that has concluded its attack can still act", path_text(p))
        if has_max:
            rows, bad = [], []
            for a, b, rel in ((1, 2, "<"), (2, 2, "="), (3, 2, ">")):
                env = {ts: 5, NXT: 5, NUM: a, MAX: b}
                if is_tap:
                    env[CONC] = False
                p, _ = _reach_under(g, ld, env, sinks)
                rows.append(f"num_executions {rel} max: {'may act' if p is not None else 'do-nothing'}")
                if rel != "<" and p is not None:
                    bad = bad or ([f"num_executions {rel} max_executions, timestep = next:"] + path_text(p))
                if rel == "<" and p is None:
                    bad = bad or ["num_executions < max_executions: no action can be returned"]
            incs = [n for n in g.nodes if n.kind == "stmt" and isinstance(n.ast, ast.AugAssign) and unparse(n.ast.target) == NUM]
            inc_ok = bool(incs) and all(isinstance(i.ast.op, ast.Add) and const_value(i.ast.value) == (True, 1) for i in incs)
            skip = g.path_avoiding(sinks, lambda e: False, blocked_nodes={i.id for i in incs})
            lo, hi = g.count_range(lambda n: n in incs)
            if skip is not None and not bad:
                bad = ["an action is returned without `num_executions += 1`:"] + (path_text(skip) or ["(straight-line path)"])
            if hi > 1 and not bad:
                bad = [f"num_executions is advanced up to {hi} times per call"]
            ctx.record(R, ctx.key(fn, "max_executions honoured"), fn.loc(), not bad and inc_ok,
                       "; ".join(rows) + f"; counter += 1 on every emitting path: {skip is None and inc_ok}", bad or None)
        # reschedule on every emitting path
        res = nodes_calling(g, ["_set_next_execution_timestep"])
        p = g.path_avoiding(sinks, lambda e: False, blocked_nodes={n.id for n in res})
        ctx.record(R, ctx.key(fn, "every emitting path reschedules"), fn.loc(), bool(res) and p is None,
                   "each non-do-nothing return is preceded by _set_next_execution_timestep(...)" if res and p is None else
                   "an action can be returned without moving next_execution_timestep forward", path_text(p))
    return agents


# --------------------------------------------------------------------------------------------------- R19.2
def _cfg_attr(e: Optional[ast.AST], name: str) -> bool:
    return e is not None and unparse(e) == f"self.config.agent_settings.{name}"


def r19_2(ctx: Ctx) -> None:
    ix = ctx.ix
    R = "R19.2"
    ctx.rule(R, "next_execution_timestep = <passed timestep> + random.randint(-v, v); single writer; callers pass "
                "timestep + frequency (variance) when acting and start_step (start_variance | 0) at set-up")
    impls = [f for f in ix.functions if f.name == "_set_next_execution_timestep" and f.path.startswith(PKG)]
    ctx.floor(R, "_set_next_execution_timestep implementations", len(impls), 2)
    impl_ids = {id(f) for f in impls}
    for f in impls:
        g = CFG(f.node)
        ld = LocalDefs(f.node)
        params = [a.arg for a in f.node.args.args][1:]
        if not params:
            raise AnalysisError(f"R19.2: {f.short} takes no timestep parameter")
        tp = params[0]
        stores = [n for n in g.nodes if n.kind == "stmt" and isinstance(n.ast, (ast.Assign, ast.AugAssign, ast.AnnAssign))
                  and unparse(n.ast.targets[0] if isinstance(n.ast, ast.Assign) else n.ast.target) == "self.next_execution_timestep"]
        lo, hi = g.count_range(lambda n: n in stores)
        if len(stores) != 1 or not isinstance(stores[0].ast, ast.Assign):
            raise AnalysisError(f"R19.2: {f.short} does not contain exactly one plain store of next_execution_timestep")
        v = stores[0].ast.value
        ok_sum = False
        rcall = None
        if isinstance(v, ast.BinOp) and isinstance(v.op, ast.Add):
            for a, b in ((v.left, v.right), (v.right, v.left)):
                if isinstance(a, ast.Name) and a.id == tp:
                    r = ld.expand(b)
                    if isinstance(r, ast.Call) and call_name(r) == "randint":
                        ok_sum, rcall = True, r
        if rcall is None:
            ctx.fail(R, ctx.key(f, "next = passed timestep + randint(-v, v)"), f.loc(stores[0].ast),
                     f"`{unparse(stores[0].ast)}` is not <{tp}> + random.randint(...)")
            continue
        lo_e, hi_e = (rcall.args + [None, None])[:2]
        sym = (isinstance(lo_e, ast.UnaryOp) and isinstance(lo_e.op, ast.USub) and hi_e is not None
               and unparse(lo_e.operand) == unparse(hi_e))
        src_ok = hi_e is not None and (unparse(hi_e) in params[1:] or _cfg_attr(hi_e, "variance"))
        glob = unparse(rcall.func) == "random.randint" and f.module.imports.get("random") == "random"
        ctx.record(R, ctx.key(f, "next = passed timestep + randint(-v, v)"), f.loc(stores[0].ast),
                   ok_sum and sym and src_ok and glob and (lo, hi) == (1, 1),
                   f"`{unparse(stores[0].ast)}` with increment {unparse(rcall)}; symmetric bounds: {sym}; v is the variance "
                   f"parameter/setting: {src_ok}; seeded global source: {glob}; stored {lo}..{hi} times per call")
    n_w = 0
    for s in _stores(ctx, "next_execution_timestep"):
        n_w += 1
        ok = s.fn is not None and id(s.fn) in impl_ids
        ctx.record(R, f"{s.path}::{s.owner}::store next_execution_timestep", s.where, ok,
                   "the schedule is written only by _set_next_execution_timestep" if ok else "second writer of the schedule")
    ctx.floor(R, "writers of next_execution_timestep", n_w, 2)
    # call sites
    n_c = 0
    seen_keys: Dict[str, int] = {}
    for cs in call_sites(ix, ["_set_next_execution_timestep"]):
        if cs.fn is None or not cs.path.startswith(PKG):
            continue
        n_c += 1
        targ = kwarg(cs.call, "timestep", 0)
        varg = kwarg(cs.call, "variance", 1)
        in_get = cs.fn.name == "get_action"
        if targ is None:
            raise AnalysisError(f"R19.2: call at {cs.where} passes no timestep")
        if in_get:
            tsn = _timestep_param(cs.fn)
            ok_t = isinstance(targ, ast.BinOp) and isinstance(targ.op, ast.Add) and (
                (isinstance(targ.left, ast.Name) and targ.left.id == tsn and _cfg_attr(targ.right, "frequency")) or
                (isinstance(targ.right, ast.Name) and targ.right.id == tsn and _cfg_attr(targ.left, "frequency")))
            ok_v = varg is None or _cfg_attr(varg, "variance")
            want = f"{tsn} + agent_settings.frequency" + (", agent_settings.variance" if varg is not None else "")
        else:
            ok_t = _cfg_attr(targ, "start_step")
            ok_v = varg is None or _cfg_attr(varg, "start_variance") or const_value(varg) == (True, 0)
            want = "agent_settings.start_step" + (", start_variance | 0" if varg is not None else "")
        # the implementation the call binds to must take a variance if one is passed, and vice versa
        k = ctx.key(cs.fn, f"schedules {'the next action' if in_get else 'the first action'}")
        seen_keys[k] = seen_keys.get(k, 0) + 1
        if seen_keys[k] > 1:
            k = f"{k} #{seen_keys[k]}"
        ctx.record(R, k, cs.where, ok_t and ok_v, f"`{unparse(cs.call)[:110]}`; required: {want}")
    ctx.floor(R, "call sites of _set_next_execution_timestep", n_c, 8)
    # the periodic agent's config validator: variance < frequency keeps the increment positive
    pa = ix.cls("PeriodicAgent")
    sc = pa.nested.get("AgentSettingsSchema")
    vals = [m for m in (sc.methods.values() if sc else []) if any("model_validator" in d for d in m.decorators)]
    okv = False
    for m in vals:
        g = CFG(m.node)
        ld = LocalDefs(m.node)
        raises = [n for n in g.nodes if n.kind == "stmt" and isinstance(n.ast, ast.Raise)]
        tbl = []
        for a, b in ((1, 3), (3, 3), (5, 3)):
            p, _ = _reach_under(g, ld, {"self.variance": a, "self.frequency": b}, raises)
            tbl.append(p is not None)
        okv = okv or tbl == [False, True, True]
    ctx.record(R, f"{pa.path}::PeriodicAgent.AgentSettingsSchema::variance < frequency enforced at load", f"{pa.path}:{sc.node.lineno if sc else 0}",
               okv, "validator raises exactly when variance >= frequency (order table <,=,> -> pass, raise, raise)" if okv else
               "no validator keeps frequency - variance positive: the next execution could be scheduled in the past")


# --------------------------------------------------------------------------------------------------- R19.3
def r19_3(ctx: Ctx, agents: List[Tuple[ClassInfo, FuncInfo]]) -> None:
    ix = ctx.ix
    R = "R19.3"
    ctx.rule(R, "emitted node names come from the configured start nodes (or the configured C2 server); the periodic "
                "agents' application is the configured target_application")
    # periodic family: literal returns
    for c, fn in agents:
        if _has_field(ctx, c, "actions_concluded"):
            continue
        g = CFG(fn.node)
        for r in [n for n in g.nodes if n.kind == "stmt" and isinstance(n.ast, ast.Return) and not _is_do_nothing(n.ast.value)]:
            v = r.ast.value
            if not (isinstance(v, ast.Tuple) and len(v.elts) == 2 and isinstance(v.elts[0], ast.Constant) and isinstance(v.elts[1], ast.Dict)):
                raise AnalysisError(f"R19.3: `{unparse(r.ast)[:70]}` in {fn.short} is not a literal (action, parameters) pair")
            d = {const_value(k)[1]: unparse(val) for k, val in zip(v.elts[1].keys, v.elts[1].values)}
            ok = v.elts[0].value == "node-application-execute" and d.get("node_name") == "self.start_node" and \
                d.get("application_name") == "self.config.agent_settings.target_application" and set(d) == {"node_name", "application_name"}
            ctx.record(R, ctx.key(fn, "emits execute(target_application) on start_node"), fn.loc(r.ast), ok, f"returns {v.elts[0].value!r} {d}")
    pa = ix.cls("PeriodicAgent")
    sn = pa.methods.get("start_node")
    if sn is None:
        raise AnalysisError("R19.3: PeriodicAgent.start_node not found")
    rets = [n for n in walk_shallow(sn.node) if isinstance(n, ast.Return)]
    ok = len(rets) == 1 and unparse(rets[0].value) == "random.choice(self.config.agent_settings.possible_start_nodes)" and \
        any("cached_property" in d for d in sn.decorators)
    ctx.record(R, ctx.key(sn, "start node drawn once from possible_start_nodes"), sn.loc(), ok,
               f"return {unparse(rets[0].value) if rets else '?'}; cached: {any('cached_property' in d for d in sn.decorators)}")
    # TAPs: starting_node / current_host / chosen_action
    allowed_start = {"self.config.agent_settings.default_starting_node": "configured default",
                     "random.choice(self.config.agent_settings.starting_nodes)": "drawn from the configured list"}
    n = 0
    for s in _stores(ctx, "starting_node"):
        if not s.path.startswith(PKG):
            continue
        n += 1
        if s.fn is None:  # class-level default
            ctx.record(R, f"{s.path}::<class>::default starting_node", s.where, const_value(s.value) == (True, ""), f"default {unparse(s.value)}")
            continue
        txt = unparse(s.value)
        ok = s.owner == "AbstractTAP._select_start_node" and txt in allowed_start
        ctx.record(R, f"{s.path}::{s.owner}::starting_node = {txt[:60]}", s.where, ok, allowed_start.get(txt, "start node from an unconfigured source"))
    ctx.floor(R, "stores of starting_node", n, 2)
    ssn = ix.method("AbstractTAP._select_start_node")
    g = CFG(ssn.node)
    ld = LocalDefs(ssn.node)
    dflt = [x for x in g.nodes if x.kind == "stmt" and isinstance(x.ast, ast.Assign) and "default_starting_node" in unparse(x.ast.value)]
    p, _ = _reach_under(g, ld, {"self.config.agent_settings.starting_nodes": ("a",)}, dflt)
    ctx.record(R, ctx.key(ssn, "default start node only when the list is empty"), ssn.loc(), bool(dflt) and p is None,
               "with a non-empty starting_nodes list the default is not used" if p is None else "the configured list can be ignored")
    allowed_host = {"self.starting_node": "the selected start node", "self.c2_settings['c2_server']": "the configured C2 server"}
    n = 0
    for s in _stores(ctx, "current_host"):
        if not s.path.startswith(PKG):
            continue
        n += 1
        if s.fn is None:
            continue
        txt = unparse(s.value)
        ctx.record(R, f"{s.path}::{s.owner}::current_host = {txt[:50]}", s.where, txt in allowed_host,
                   allowed_host.get(txt, "current host taken from somewhere other than the configured nodes"))
    ctx.floor(R, "stores of current_host", n, 8)
    t1 = ix.method("TAP001.setup_agent")
    c2 = None
    for x in walk_shallow(t1.node):
        if isinstance(x, (ast.Assign, ast.AnnAssign)) and unparse(x.targets[0] if isinstance(x, ast.Assign) else x.target) == "self.c2_settings" \
                and isinstance(x.value, ast.Dict):
            for k, v in zip(x.value.keys, x.value.values):
                if const_value(k) == (True, "c2_server"):
                    c2 = unparse(v)
    ctx.record(R, ctx.key(t1, "c2_settings['c2_server'] is the configured C2 server name"), t1.loc(),
               c2 == "self.config.agent_settings.kill_chain.COMMAND_AND_CONTROL.c2_server_name", f"'c2_server': {c2}")
    others = [cs for cs in call_sites(ix, ["update"]) if cs.path.startswith(PKG) and unparse(cs.call.func.value) == "self.c2_settings"
              and "c2_server'" in unparse(cs.call) and "c2_server_ip" not in unparse(cs.call)]
    ctx.record(R, f"{t1.path}::TAP001::c2_server is not rewritten", t1.loc(), not others,
               "no c2_settings.update({... 'c2_server' ...}) site" if not others else f"rewritten at {[o.where for o in others]}")
    n = 0
    for s in _stores(ctx, "chosen_action"):
        if not s.path.startswith(PKG) or s.fn is None:
            continue
        v = s.value
        if not (isinstance(v, ast.Tuple) and len(v.elts) == 2 and isinstance(v.elts[0], ast.Constant) and isinstance(v.elts[1], ast.Dict)):
            raise AnalysisError(f"R19.3: `{unparse(s.node)[:70]}` at {s.where} is not a literal (action, parameters) pair")
        if _is_do_nothing(v):
            continue
        n += 1
        keys = {const_value(k)[1]: unparse(val) for k, val in zip(v.elts[1].keys, v.elts[1].values) if k is not None}
        if any(k is None for k in v.elts[1].keys) and not any(k in keys for k in NODE_KEYS):
            raise AnalysisError(f"R19.3: node name of the action at {s.where} hidden in a ** expansion")
        nodes = {k: keys[k] for k in NODE_KEYS if k in keys}
        ok = bool(nodes) and all(val in ("self.current_host", "self.starting_node") for val in nodes.values())
        seq = sum(1 for i in ctx.instances if i.rule == R and i.key.startswith(f"{s.path}::{s.owner}::action {v.elts[0].value}"))
        ctx.record(R, f"{s.path}::{s.owner}::action {v.elts[0].value}" + (f" #{seq + 1}" if seq else ""), s.where, ok,
                   f"{v.elts[0].value} acts from {nodes or 'no node parameter'}")
    ctx.floor(R, "non-do-nothing chosen_action stores", n, 15)


# --------------------------------------------------------------------------------------------------- R19.4
class _Enums:
    def __init__(self, ctx: Ctx):
        ix = ctx.ix
        self.ix = ix
        self.stage: Dict[str, ClassInfo] = {}
        for c in ix.classes.values():
            if c.path.startswith(PKG) and ix.is_enum(c):
                mem = ix.enum_members(c)
                if all(s in mem for s in SENTINELS):
                    self.stage[c.name] = c
        tap = ix.cls("AbstractTAP")
        pc, _ = ix.attr_type(tap, PROGRESS_FIELD)
        if pc is None or not ix.is_enum(pc):
            raise AnalysisError("R19.4: AbstractTAP.current_stage_progress is not typed with an enum")
        self.progress = pc
        for f in STAGE_FIELDS:
            sc, _ = ix.attr_type(tap, f)
            if sc is None or sc.name not in self.stage:
                raise AnalysisError(f"R19.4: AbstractTAP.{f} is not typed with a kill-chain stage enum")
        self.all_stage_members: Set[str] = set()
        for c in self.stage.values():
            self.all_stage_members |= set(ix.enum_members(c))

    def member(self, e: ast.AST, fn: Optional[FuncInfo]) -> Optional[Tuple[str, str, str]]:
        """Classify `X.M`: ('stage'|'progress'|'other', enum name, member)."""
        if not isinstance(e, ast.Attribute):
            return None
        ch = attr_chain(e)
        if not ch or "()" in ch or "[]" in ch or len(ch) < 2:
            return None
        base, mem = ch[:-1], ch[-1]
        if base == ["self", "selected_kill_chain"]:
            return ("stage", "selected_kill_chain", mem) if mem in self.all_stage_members else None
        if len(base) == 1:
            nm = base[0]
            if nm in self.stage:
                return ("stage", nm, mem) if mem in self.ix.enum_members(self.stage[nm]) else None
            if nm == self.progress.name:
                return ("progress", nm, mem) if mem in self.ix.enum_members(self.progress) else None
            # a parameter annotated Type[<stage enum>] / <stage enum>
            if fn is not None and not isinstance(fn.node, ast.Lambda):
                for a in fn.node.args.args:
                    if a.arg == nm and a.annotation is not None and any(s in unparse(a.annotation) for s in self.stage):
                        return ("stage", nm, mem) if mem in self.all_stage_members else None
            k = self.ix.cls_opt(nm)
            if k is not None and self.ix.is_enum(k) and mem in self.ix.enum_members(k):
                return ("other", nm, mem)
        return None

    def denotes_stage_enum(self, e: ast.AST, fn: Optional[FuncInfo]) -> bool:
        t = unparse(e)
        if t == "self.selected_kill_chain" or t in self.stage:
            return True
        if isinstance(e, ast.Name) and fn is not None:
            for a in fn.node.args.args:
                if a.arg == e.id and a.annotation is not None and any(s in unparse(a.annotation) for s in self.stage):
                    return True
        return False

    def stage_rhs(self, e: ast.AST, fn: Optional[FuncInfo]) -> Optional[str]:
        m = self.member(e, fn)
        if m is not None:
            kind, en, mem = m
            if kind == "stage":
                return f"SENTINEL:{mem}" if mem in SENTINELS else f"STAGE:{mem}"
            return f"WRONG-ENUM:{en}.{mem}"
        if isinstance(e, ast.Attribute) and unparse(e) == "self.next_kill_chain_stage":
            return "NEXT"
        if isinstance(e, ast.Call):
            if call_name(e) == "initial_stage":
                return "INIT"
            if self.denotes_stage_enum(e.func, fn) and len(e.args) == 1:
                a = e.args[0]
                if isinstance(a, ast.BinOp) and isinstance(a.op, ast.Add) and unparse(a.left) == "self.current_kill_chain_stage" \
                        and const_value(a.right) == (True, 1):
                    return "CUR+1"
        return None


def _flag_value(e: Edge, ld: LocalDefs, flag: str) -> Optional[bool]:
    """If the edge is a branch on a boolean option `<...>.<flag>`: the option's value on this edge."""
    if not e.label or e.label[0] != "cond":
        return None
    ex = ld.expand(e.label[1])
    pol = e.label[2]
    if isinstance(ex, ast.Attribute) and ex.attr == flag:
        return pol
    if isinstance(ex, ast.Compare) and len(ex.ops) == 1:
        l, r = ex.left, ex.comparators[0]
        if isinstance(r, ast.Attribute) and r.attr == flag:
            l, r = r, l
        if isinstance(l, ast.Attribute) and l.attr == flag and isinstance(r, ast.Constant) and isinstance(r.value, bool):
            if isinstance(ex.ops[0], (ast.Eq, ast.Is)):
                return pol == r.value
            if isinstance(ex.ops[0], (ast.NotEq, ast.IsNot)):
                return pol != r.value
    return None


def _progress_returning(ctx: Ctx, en: _Enums, fn: FuncInfo, call: ast.Call, depth: int = 0) -> Optional[str]:
    """If `call` is self.<m>() and every return of m is a progress-enum member (or such a call): None; else a reason."""
    if not (isinstance(call.func, ast.Attribute) and unparse(call.func.value) == "self" and fn.cls is not None) or depth > 3:
        return f"`{unparse(call)[:50]}` is not a call of an own method"
    m = ctx.ix.find_method(fn.cls, call.func.attr)
    if m is None:
        return f"method {call.func.attr} not found"
    rets = [r for r in walk_shallow(m.node) if isinstance(r, ast.Return)]
    if not rets:
        return f"{m.short} returns nothing"
    for r in rets:
        mm = en.member(r.value, m) if r.value is not None else None
        if mm is not None and mm[0] == "progress":
            continue
        if isinstance(r.value, ast.Call):
            why = _progress_returning(ctx, en, m, r.value, depth + 1)
            if why is None:
                continue
            return why
        return f"{m.short} returns `{unparse(r.value)[:40]}`"
    return None


def r19_4(ctx: Ctx, agents: List[Tuple[ClassInfo, FuncInfo]]) -> None:
    ix = ctx.ix
    R = "R19.4"
    ctx.rule(R, "kill-chain stage fields: stores in {INIT, NEXT, CUR+1, NOT_STARTED, SUCCEEDED, FAILED} of a stage enum; "
                "advancing only in _progress_kill_chain/_tap_start; comparisons within the field's own enum; stage methods "
                "act only in their stage and are called in descending order; FAILED only where repeat_kill_chain_stages is "
                "false; restart/conclude according to repeat_kill_chain")
    en = _Enums(ctx)
    ctx.floor(R, "kill-chain stage enums", len(en.stage), 3)
    allowed = {"current_kill_chain_stage": {"INIT", "NEXT", "CUR+1", "SENTINEL:NOT_STARTED", "SENTINEL:FAILED", "SENTINEL:SUCCEEDED"},
               "next_kill_chain_stage": {"INIT", "CUR+1", "SENTINEL:NOT_STARTED", "SENTINEL:SUCCEEDED"}}
    seen: Dict[str, int] = {}

    def uniq(k: str) -> str:
        seen[k] = seen.get(k, 0) + 1
        return k if seen[k] == 1 else f"{k} #{seen[k]}"

    n = 0
    failed_stores = []
    for fld in STAGE_FIELDS:
        for s in _stores(ctx, fld):
            if not s.path.startswith(PKG):
                continue
            n += 1
            if s.kind not in ("assign", "ann") or s.value is None:
                ctx.fail(R, uniq(f"{s.path}::{s.owner}::{s.kind} {fld}"), s.where, f"`{unparse(s.node)[:70]}` is not a plain store of a stage")
                continue
            cat = en.stage_rhs(s.value, s.fn)
            if cat is None:
                raise AnalysisError(f"R19.4: cannot classify the right-hand side of `{unparse(s.node)[:80]}` at {s.where}")
            key = uniq(f"{s.path}::{s.owner}::{fld} = {cat}")
            if cat.startswith("WRONG-ENUM"):
                ctx.fail(R, key, s.where, f"`{unparse(s.node)[:90]}` stores a member of {cat.split(':')[1].split('.')[0]} in a field that "
                                         f"holds kill-chain stages")
                continue
            if cat.startswith("STAGE:"):
                ctx.fail(R, key, s.where, f"`{unparse(s.node)[:90]}` jumps to a named stage instead of progressing by one")
                continue
            ok = cat in allowed[fld]
            if s.fn is not None and cat in ("NEXT", "CUR+1"):
                ok = ok and s.fn.name in ADVANCING_FUNCS
            if cat == "SENTINEL:FAILED" and s.fn is not None:
                failed_stores.append(s)
            ctx.record(R, key, s.where, ok, f"`{unparse(s.node)[:80]}`" + ("" if ok else " - stage advanced outside "
                                                                          "_progress_kill_chain/_tap_start or value not allowed for this field"))
    ctx.floor(R, "stores to the stage fields", n, 25)
    # progress field stores
    n = 0
    for s in _stores(ctx, PROGRESS_FIELD):
        if not s.path.startswith(PKG):
            continue
        n += 1
        m = en.member(s.value, s.fn) if s.value is not None else None
        if m is not None:
            ok, det = m[0] == "progress", f"{m[1]}.{m[2]}"
        elif isinstance(s.value, ast.Call) and s.fn is not None:
            why = _progress_returning(ctx, en, s.fn, s.value)
            ok, det = why is None, f"{unparse(s.value)} returns only KillChainStageProgress members" if why is None else why
        else:
            raise AnalysisError(f"R19.4: cannot classify `{unparse(s.node)[:80]}` at {s.where}")
        ctx.record(R, uniq(f"{s.path}::{s.owner}::{PROGRESS_FIELD} = {unparse(s.value)[:40]}"), s.where, ok, det)
    ctx.floor(R, "stores to current_stage_progress", n, 10)
    # comparisons
    n = 0
    for f in ix.functions:
        if not f.path.startswith(PKG):
            continue
        for x in walk_shallow(f.node):
            if not isinstance(x, ast.Compare) or len(x.ops) != 1:
                continue
            sides = [x.left, x.comparators[0]]
            for i, sd in enumerate(sides):
                if isinstance(sd, ast.Attribute) and sd.attr in STAGE_FIELDS + (PROGRESS_FIELD,) and unparse(sd.value) == "self":
                    other = sides[1 - i]
                    want = "progress" if sd.attr == PROGRESS_FIELD else "stage"
                    m = en.member(other, f)
                    n += 1
                    if m is None:
                        if isinstance(other, ast.Attribute) and other.attr in STAGE_FIELDS and want == "stage":
                            ok, det = True, "compared with the other stage field"
                        else:
                            raise AnalysisError(f"R19.4: `{unparse(x)[:70]}` at {f.loc(x)} compares {sd.attr} with something that is not an enum member")
                    else:
                        ok = m[0] == want
                        det = f"`{unparse(x)[:80]}`" + ("" if ok else f": {sd.attr} holds {'KillChainStageProgress' if want == 'progress' else 'kill-chain stage'} "
                                                        f"members, compared with {m[1]}.{m[2]} - an IntEnum never equals a member of "
                                                        f"another Enum, the test is constantly False")
                    ctx.record(R, uniq(ctx.key(f, f"{sd.attr} {type(x.ops[0]).__name__} {unparse(other)[:50]}")), f.loc(x), ok, det)
    ctx.floor(R, "comparisons of stage/progress fields", n, 30)
    # FAILED only where repeat_kill_chain_stages is false
    for s in failed_stores:
        g = CFG(s.fn.node)
        ld = LocalDefs(s.fn.node)
        tgt = [x for x in g.nodes if x.ast is s.node]
        if not tgt:
            raise AnalysisError(f"R19.4: store at {s.where} not found in the CFG of {s.fn.short}")
        p = g.path_avoiding(tgt, lambda e: _flag_value(e, ld, "repeat_kill_chain_stages") is False)
        if p is None:
            ctx.ok(R, uniq(ctx.key(s.fn, "FAILED only when repeat_kill_chain_stages is false")), s.where,
                   "the store is reached only on the `repeat_kill_chain_stages == False` edge")
        elif s.fn.short in UNGATED_FAILED_OK:
            ctx.ok(R, uniq(ctx.key(s.fn, "FAILED on an internal-error branch")), s.where, UNGATED_FAILED_OK[s.fn.short])
        else:
            ctx.fail(R, uniq(ctx.key(s.fn, "FAILED only when repeat_kill_chain_stages is false")), s.where,
                     "the kill chain can be failed although the agent is set to retry stages", path_text(p))
    ctx.floor(R, "FAILED stores", len(failed_stores), 10)
    # end-of-chain handler
    oh = ix.method("AbstractTAP._tap_outcome_handler")
    g = CFG(oh.node)
    ld = LocalDefs(oh.node)
    restart = [x for x in g.nodes if x.kind == "stmt" and isinstance(x.ast, ast.Assign) and any(
        isinstance(t, ast.Attribute) and t.attr in STAGE_FIELDS for t in x.ast.targets)]
    conclude = [x for x in g.nodes if x.kind == "stmt" and isinstance(x.ast, ast.Assign) and any(
        isinstance(t, ast.Attribute) and t.attr == "actions_concluded" for t in x.ast.targets) and const_value(x.ast.value) == (True, True)]
    if not restart or not conclude:
        raise AnalysisError("R19.4: _tap_outcome_handler has no restart stores or no `actions_concluded = True`")
    p1 = g.path_avoiding(restart, lambda e: _flag_value(e, ld, "repeat_kill_chain") is True)
    p2 = g.path_avoiding(conclude, lambda e: _flag_value(e, ld, "repeat_kill_chain") is False)
    cats = sorted({en.stage_rhs(x.ast.value, oh) or "?" for x in restart})

    def ended(e: Edge) -> bool:
        if not e.label or e.label[0] != "cond":
            return False
        ex = e.label[1]
        if isinstance(ex, ast.Compare) and len(ex.ops) == 1 and isinstance(ex.ops[0], (ast.Eq, ast.Is)) and e.label[2]:
            for subj, other in ((ex.left, ex.comparators[0]), (ex.comparators[0], ex.left)):
                m = en.member(other, oh)
                if unparse(subj) == "self.current_kill_chain_stage" and m is not None and m[2] in ("SUCCEEDED", "FAILED"):
                    return True
        return False

    p3 = g.path_avoiding(restart + conclude, ended)
    ctx.record(R, ctx.key(oh, "restart only with repeat_kill_chain, conclude only without, both only at SUCCEEDED/FAILED"), oh.loc(),
               p1 is None and p2 is None and p3 is None and set(cats) <= {"SENTINEL:NOT_STARTED", "INIT"},
               f"restart stores {cats} only on the repeat edge: {p1 is None}; actions_concluded = True only on the other: {p2 is None}; "
               f"both only past `stage == SUCCEEDED or FAILED`: {p3 is None}", path_text(p1 or p2 or p3))
    n_ac = 0
    for s in _stores(ctx, "actions_concluded"):
        if not s.path.startswith(PKG):
            continue
        n_ac += 1
        ok = s.fn is None or s.owner == "AbstractTAP._tap_outcome_handler"
        ctx.record(R, f"{s.path}::{s.owner}::store actions_concluded", s.where, ok, "class default / the end-of-chain handler")
    ctx.floor(R, "writers of actions_concluded", n_ac, 1)
    # who may call _progress_kill_chain: stage methods only
    n_pc = 0
    for cs in call_sites(ix, ["_progress_kill_chain"]):
        if cs.fn is None or not cs.path.startswith(PKG):
            continue
        n_pc += 1
        st = _guard_stage(en, cs.fn)
        ctx.record(R, uniq(ctx.key(cs.fn, "calls _progress_kill_chain from a stage method")), cs.where, st is not None and st not in SENTINELS,
                   f"caller is the method of stage {st}" if st else "the kill chain is advanced from a function that does not test the current stage")
    ctx.floor(R, "call sites of _progress_kill_chain", n_pc, 10)
    # stage methods: act only in their own stage; called in descending order
    gated_done: Set[int] = set()
    for c, fn in agents:
        if not _has_field(ctx, c, "actions_concluded"):
            continue
        kc = c.fields.get("selected_kill_chain")
        kc_cls = ix.cls_opt(unparse(kc.default)) if kc is not None and kc.default is not None else None
        if kc_cls is None or kc_cls.name not in en.stage:
            raise AnalysisError(f"R19.4: {c.short}.selected_kill_chain has no stage-enum default")
        members = ix.enum_members(kc_cls)
        order: List[Tuple[str, int, ast.AST]] = []
        # the stage-method call statements, wherever they sit (top level or inside an else arm), in source order
        stage_stmts_all = sorted((x for x in ast.walk(fn.node) if isinstance(x, ast.Expr)), key=lambda x: (x.lineno, x.col_offset))
        for st in stage_stmts_all:
            if isinstance(st, ast.Expr) and isinstance(st.value, ast.Call) and isinstance(st.value.func, ast.Attribute) \
                    and unparse(st.value.func.value) == "self":
                m = ix.find_method(c, st.value.func.attr)
                if m is None or isinstance(m.node, ast.Lambda):
                    continue
                stage = _guard_stage(en, m)
                if stage is None:
                    continue
                if stage not in members:
                    raise AnalysisError(f"R19.4: {m.short} guards on {stage}, not a member of {kc_cls.name}")
                val = -1 if stage == "NOT_STARTED" else members[stage]
                order.append((m.name, val, st))
                if id(m) not in gated_done:
                    gated_done.add(id(m))
                    _stage_method_gated(ctx, en, m, stage, uniq)
                    _trial_uses_own_probability(ctx, m, stage)
        nested = [x for x in ast.walk(fn.node) if isinstance(x, ast.Call) and isinstance(x.func, ast.Attribute) and unparse(x.func.value) == "self"
                  and (lambda mm: mm is not None and not isinstance(mm.node, ast.Lambda) and _guard_stage(en, mm) is not None)(ix.find_method(c, x.func.attr))]
        if len(nested) != len(order):
            raise AnalysisError(f"R19.4: {fn.short} calls stage methods inside expressions, not as statements")
        # they must form one chain in the flow graph: each later call is reachable from the one before it
        _g = CFG(fn.node)
        _nodes = [next((nd for nd in _g.nodes if nd.ast is st), None) for _n, _v, st in order]
        if any(nd is None for nd in _nodes) or any(b.id not in _g.reachable(a) for a, b in zip(_nodes, _nodes[1:])):
            raise AnalysisError(f"R19.4: the stage-method calls of {fn.short} are not one sequence in the flow graph (exclusive branches)")
        vals = [v for _n, v, _s in order]
        desc = all(a > b for a, b in zip(vals, vals[1:]))
        _response_consulted(ctx, en, fn, [st for _n, _v, st in order])
        ctx.record(R, ctx.key(fn, "stage methods run in descending stage order"), fn.loc(order[0][2]) if order else fn.loc(), bool(order) and desc,
                   "calls " + " > ".join(f"{nm}[{v if v >= 0 else 'NOT_STARTED'}]" for nm, v, _s in order) +
                   (" - one stage acts per step" if desc else " - a stage that progresses hands over to the next stage's method in the same step"))
        ctx.count(f"R19.4:{c.short} stage methods", len(order))
        if len(order) < 5:
            raise AnalysisError(f"R19.4: only {len(order)} stage methods recognised in {fn.short}")


def _trial_uses_own_probability(ctx: Ctx, m: FuncInfo, stage: str) -> None:
    """Inside the method for stage S every probability trial reads kill_chain.S.probability."""
    for i, c in enumerate([c for c in calls_in(m.node) if call_name(c) == "_agent_trial_handler"]):
        arg = unparse(c.args[0]) if c.args else ""
        want = f"self.config.agent_settings.kill_chain.{stage}.probability"
        ctx.record("R19.4", ctx.key(m, f"trial uses the {stage} probability" + (f" #{i + 1}" if i else "")), m.loc(c), arg == want,
                   f"_agent_trial_handler({arg})" + ("" if arg == want else f" - expected {want}"))


def _response_consulted(ctx: Ctx, en: _Enums, fn: FuncInfo, stage_stmts: List[ast.AST]) -> None:
    """get_action: the previous response is consulted before any stage acts; after a failed response only a branch that
    names the stage explicitly continues; the index of the consulted history item is refreshed on every acting path."""
    R = "R19.4"
    g = CFG(fn.node)
    ld = LocalDefs(fn.node)
    sinks = [n for n in g.nodes if any(n.ast is st for st in stage_stmts)]
    hc = [n for n in g.nodes if n.kind == "cond" and isinstance(ld.expand(n.ast), ast.Call) and call_name(ld.expand(n.ast)) == "_tap_return_handler"]
    if not hc or not sinks:
        ctx.fail(R, ctx.key(fn, "previous response is consulted before a stage acts"), fn.loc(), "_tap_return_handler is not used as a branch condition")
        return
    call = ld.expand(hc[0].ast)
    arg_ok = len(call.args) == 1 and unparse(call.args[0]) == "self.current_timestep"
    p = g.path_avoiding(sinks, lambda e: False, blocked_nodes={n.id for n in hc})
    ctx.record(R, ctx.key(fn, "previous response is consulted before a stage acts"), fn.loc(hc[0].ast), p is None and arg_ok,
               f"every path to the stage methods tests `{unparse(call)}`" if p is None else "the stage methods can run without looking at the last response",
               path_text(p))

    def stage_named(e: Edge) -> bool:
        if not e.label or e.label[0] != "cond" or not e.label[2]:
            return False
        ex = e.label[1]
        if isinstance(ex, ast.Compare) and len(ex.ops) == 1 and isinstance(ex.ops[0], (ast.Eq, ast.Is)):
            for subj, other in ((ex.left, ex.comparators[0]), (ex.comparators[0], ex.left)):
                if unparse(subj) == "self.current_kill_chain_stage":
                    m = en.member(other, fn)
                    return m is not None and m[0] == "stage" and m[2] not in SENTINELS
        return False

    wit = None
    for h in hc:
        for e in g.succ[h.id]:
            if e.label and e.label[0] == "cond" and e.label[2] is False:
                q = g.path_avoiding(sinks, stage_named, start=e.dst)
                if q is not None or e.dst in sinks:
                    wit = path_text(q) or ["(falls straight through to the stage methods)"]
    ctx.record(R, ctx.key(fn, "after a failed response only explicitly named stages continue"), fn.loc(hc[0].ast), wit is None,
               "from the `not _tap_return_handler(...)` edge the stage methods are reached only through `stage == <named stage>` branches"
               if wit is None else "a failed action does not stop the kill chain from advancing", wit)
    ts = _timestep_param(fn)
    upd = [n for n in g.nodes if any(call_name(c) == "update_current_timestep" and (kwarg(c, "new_timestep", 0) is not None)
                                     and unparse(kwarg(c, "new_timestep", 0)) == ts for c in node_calls(n))]
    rets = [n for n in g.nodes if n.kind == "stmt" and isinstance(n.ast, ast.Return) and not _is_do_nothing(n.ast.value)]
    p = g.path_avoiding(rets, lambda e: False, blocked_nodes={n.id for n in upd})
    ctx.record(R, ctx.key(fn, "history index of the consulted response is refreshed on every acting path"), fn.loc(), bool(upd) and p is None,
               f"update_current_timestep({ts}) precedes every non-do-nothing return" if upd and p is None else
               "the next call would consult the response of an older action", path_text(p))


def _guard_stage(en: _Enums, m: FuncInfo) -> Optional[str]:
    """Stage tested by the method's leading `if self.current_kill_chain_stage == <stage>` (or `if not ...: return`)."""
    body = [s for s in m.node.body if not (isinstance(s, ast.Expr) and isinstance(s.value, ast.Constant))]
    # the guard may be computed into a local first: skip leading plain assignments to names and read the test through them
    k = 0
    while k < len(body) and isinstance(body[k], ast.Assign) and all(isinstance(x, ast.Name) for x in body[k].targets):
        k += 1
    if k >= len(body) or not isinstance(body[k], ast.If):
        return None
    t = expand_test(LocalDefs(m.node), body[k].test)
    neg = False
    while isinstance(t, ast.UnaryOp) and isinstance(t.op, ast.Not):
        t, neg = t.operand, not neg
    if isinstance(t, ast.Compare) and len(t.ops) == 1 and isinstance(t.ops[0], (ast.Eq, ast.Is, ast.NotEq, ast.IsNot)):
        sides = [t.left, t.comparators[0]]
        for i, sd in enumerate(sides):
            if unparse(sd) == "self.current_kill_chain_stage":
                mm = en.member(sides[1 - i], m)
                if mm is not None and mm[0] == "stage":
                    return mm[2]
    return None


def _stage_method_gated(ctx: Ctx, en: _Enums, m: FuncInfo, stage: str, uniq) -> None:
    g = CFG(m.node)

    def own_stage(e: Edge) -> bool:
        if not e.label or e.label[0] != "cond":
            return False
        ex = e.label[1]
        if isinstance(ex, ast.Compare) and len(ex.ops) == 1:
            sides = [ex.left, ex.comparators[0]]
            for i, sd in enumerate(sides):
                if unparse(sd) == "self.current_kill_chain_stage":
                    mm = en.member(sides[1 - i], m)
                    if mm is not None and mm[0] == "stage" and mm[2] == stage:
                        eq = isinstance(ex.ops[0], (ast.Eq, ast.Is))
                        ne = isinstance(ex.ops[0], (ast.NotEq, ast.IsNot))
                        return (eq and e.label[2]) or (ne and not e.label[2])
        return False

    effects = []
    for x in g.nodes:
        if x.kind == "stmt" and isinstance(x.ast, (ast.Assign, ast.AugAssign, ast.AnnAssign)):
            tg = x.ast.targets if isinstance(x.ast, ast.Assign) else [x.ast.target]
            if any(isinstance(t, ast.Attribute) and unparse(t.value) == "self" for t in tg):
                effects.append(x)
        elif any(isinstance(c.func, ast.Attribute) and unparse(c.func.value) == "self" and c.func.attr.startswith("_") for c in node_calls(x)):
            effects.append(x)
    p = g.path_avoiding(effects, own_stage)
    ctx.record("R19.4", uniq(ctx.key(m, f"acts only in stage {stage}")), m.loc(), bool(effects) and p is None,
               f"every store / helper call lies past `current_kill_chain_stage == {stage}`" if p is None else
               "the stage method can act while the agent is in another stage", path_text(p))


# --------------------------------------------------------------------------------------------------- R19.5
def _strip_wrappers(e: ast.AST) -> ast.AST:
    while isinstance(e, ast.Call) and len(e.args) >= 1 and (
            unparse(e.func) in ("np.asarray", "np.array", "numpy.asarray", "numpy.array", "list", "tuple")):
        e = e.args[0]
    return e


def _vector_order(e: ast.AST, src: str) -> Tuple[Optional[bool], str]:
    """Is the vector built from mapping `src` in key order?  (True/False/None=unknown, description)."""
    e = _strip_wrappers(e)
    if isinstance(e, ast.Call) and isinstance(e.func, ast.Attribute) and e.func.attr == "values" and unparse(e.func.value) == src:
        return False, f"{src.split('.')[-1]}.values(): dict insertion order (the order the keys were written in the scenario file)"
    if isinstance(e, ast.ListComp) and len(e.generators) == 1 and not e.generators[0].ifs:
        gen = e.generators[0]
        it = gen.iter
        tgt = gen.target
        if isinstance(tgt, ast.Name) and isinstance(e.elt, ast.Subscript) and unparse(e.elt.value) == src and unparse(e.elt.slice) == tgt.id:
            if isinstance(it, ast.Call) and unparse(it.func) == "range" and len(it.args) == 1 and unparse(it.args[0]) in (
                    f"len({src})", "len(self.action_manager.action_map)"):
                return True, "indexed by range(len(...))"
            if isinstance(it, ast.Call) and unparse(it.func) == "sorted" and len(it.args) == 1 and not it.keywords and unparse(
                    _strip_wrappers(it.args[0])) in (src, f"{src}.keys()"):
                return True, "indexed by sorted(keys)"
        if isinstance(tgt, ast.Tuple) and len(tgt.elts) == 2 and isinstance(e.elt, ast.Name) and isinstance(tgt.elts[1], ast.Name) \
                and e.elt.id == tgt.elts[1].id and isinstance(it, ast.Call) and unparse(it.func) == "sorted" and not it.keywords \
                and len(it.args) == 1 and unparse(it.args[0]) == f"{src}.items()":
            return True, "values of sorted(items)"
    return None, unparse(e)[:60]


def r19_5(ctx: Ctx) -> None:
    ix = ctx.ix
    R = "R19.5"
    ctx.rule(R, "ProbabilisticAgent: probability vector in action-index order, count = size of the action map, drawn index "
                "is the action returned; Generator seeded from the seeded global numpy source; set_random_seed seeds both "
                "global sources; other draws of the scripted agents use the seeded stdlib global")
    pa = ix.cls("ProbabilisticAgent")
    fn = ix.method("ProbabilisticAgent.get_action")
    g = CFG(fn.node)
    ld = LocalDefs(fn.node)
    ch = [c for c in calls_in(fn.node) if call_name(c) == "choice"]
    if len(ch) != 1:
        raise AnalysisError("R19.5: ProbabilisticAgent.get_action does not contain exactly one .choice(...) call")
    call = ch[0]
    recv = unparse(call.func.value)
    p_arg = kwarg(call, "p", 3)
    n_arg = kwarg(call, "a", 0)
    if p_arg is None:
        ctx.fail(R, ctx.key(fn, "probability vector is index-aligned with the action map"), fn.loc(call), "rng.choice is called without p=: uniform sampling")
    else:
        src = "self.config.agent_settings.action_probabilities"
        e = ld.expand(p_arg)
        via = ""
        if isinstance(e, ast.Attribute) and unparse(e.value) == "self" and e.attr in pa.methods and pa.methods[e.attr].is_property:
            prop = pa.methods[e.attr]
            rets = [r for r in walk_shallow(prop.node) if isinstance(r, ast.Return)]
            if len(rets) != 1:
                raise AnalysisError(f"R19.5: property {prop.short} has {len(rets)} returns")
            pld = LocalDefs(prop.node)

            class _Inline(ast.NodeTransformer):
                """replace single-assignment locals of the property by their definitions (alias-insensitive matching)"""

                def visit_Name(self, node):  # noqa: N802
                    if isinstance(node.ctx, ast.Load):
                        d = pld.single(node.id)
                        if d and d[0] is not None and d[1] is None:
                            return self.visit(copy.deepcopy(d[0]))
                    return node

            e = _Inline().visit(copy.deepcopy(pld.expand(rets[0].value)))
            via = f" (via property {prop.name})"
        aligned, how = _vector_order(e, src)
        if aligned is None:
            raise AnalysisError(f"R19.5: cannot classify how the probability vector `{how}` is built")
        # a validator that re-orders the mapping by key would make .values() aligned
        sc = pa.nested.get("AgentSettingsSchema")
        normalises = False
        for m in (sc.methods.values() if sc else []):
            if any("field_validator" in d and "action_probabilities" in d for d in m.decorators):
                for r in walk_shallow(m.node):
                    if isinstance(r, ast.Return) and r.value is not None and "sorted(" in unparse(r.value):
                        normalises = True
        ok = aligned or normalises
        ctx.record(R, ctx.key(fn, "probability vector is index-aligned with the action map"), fn.loc(call), ok,
                   f"p = {unparse(p_arg)}{via}: {how}" + ("" if ok else "; no validator re-orders the mapping: entry i of the vector is the "
                                                          "i-th *written* probability, not the probability of action i"))
    ok_n = n_arg is not None and unparse(ld.expand(n_arg)) == "len(self.action_manager.action_map)"
    ctx.record(R, ctx.key(fn, "samples an index of the action map"), fn.loc(call), ok_n and recv == "self.rng",
               f"{recv}.choice({unparse(n_arg)}, ...)")
    rets = [n for n in g.nodes if n.kind == "stmt" and isinstance(n.ast, ast.Return)]
    ok_r = bool(rets) and not g.falls_through
    for r in rets:
        v = r.ast.value
        okc = isinstance(v, ast.Call) and unparse(v.func) == "self.action_manager.get_action" and len(v.args) == 1 and ld.expand(v.args[0]) is call
        ok_r = ok_r and okc
    ctx.record(R, ctx.key(fn, "returns the action with the drawn index"), fn.loc(), ok_r, "return self.action_manager.get_action(<drawn index>)")
    # validators of the table
    sc = pa.nested.get("AgentSettingsSchema")
    vnames = sorted(m.name for m in (sc.methods.values() if sc else []) if any("field_validator" in d and "action_probabilities" in d for d in m.decorators))
    ctx.record(R, f"{pa.path}::ProbabilisticAgent.AgentSettingsSchema::probability table is validated at load", f"{pa.path}:{sc.node.lineno if sc else 0}",
               len(vnames) >= 2, f"field validators: {vnames} (sum to 1; keys cover 0..N-1)")
    # seeding
    fld = pa.fields.get("rng")
    seed_ok, det = False, "no rng field"
    if fld is not None and isinstance(fld.default, ast.Call):
        fac = kwarg(fld.default, "default_factory")
        if isinstance(fac, ast.Lambda) and isinstance(fac.body, ast.Call) and unparse(fac.body.func) in ("np.random.default_rng", "numpy.random.default_rng"):
            args = fac.body.args
            det = f"default_factory = {unparse(fac)[:90]}"
            if len(args) == 1 and isinstance(args[0], ast.Call) and unparse(args[0].func) in (
                    "np.random.randint", "numpy.random.randint", "random.randint", "random.getrandbits", "random.randrange"):
                seed_ok = True
            elif not args:
                det += " - default_rng() without a seed draws OS entropy: not reproducible"
        else:
            raise AnalysisError("R19.5: ProbabilisticAgent.rng default_factory is not `lambda: np.random.default_rng(...)`")
    ctx.record(R, f"{pa.path}::ProbabilisticAgent::rng is seeded from the seeded global source", f"{pa.path}:{getattr(fld.node, 'lineno', 0) if fld else 0}",
               seed_ok, det)
    n_rw = 0
    for s in stores_to_attr(ix, ["rng"]):
        if s.path.startswith(PKG) and s.fn is not None:
            n_rw += 1
            ctx.fail(R, f"{s.path}::{s.owner}::store rng", s.where, "the agent's Generator is replaced after construction")
    srs = ix.module_func("primaite.session.environment", "set_random_seed")
    calls = {unparse(c.func): c for c in calls_in(srs.node)}
    both = "random.seed" in calls and "np.random.seed" in calls and all(
        len(calls[k].args) == 1 and unparse(calls[k].args[0]) == "seed" for k in ("random.seed", "np.random.seed"))
    gs = CFG(srs.node)
    seeds = [n for n in nodes_calling(gs, ["seed"]) if any(unparse(c.func) in ("random.seed", "np.random.seed") for c in node_calls(n))]
    # every path that returns a seed value (not the `return None` = "no seeding requested" exit) seeds both sources
    rets_val = [n for n in gs.nodes if n.kind == "stmt" and isinstance(n.ast, ast.Return) and not (
        n.ast.value is None or const_value(n.ast.value) == (True, None))]
    for sd in seeds:
        if gs.path_avoiding(rets_val, lambda e: False, blocked_nodes={sd.id}) is not None:
            both = False
    ctx.record(R, ctx.key(srs, "seeds the stdlib and the numpy global sources"), srs.loc(), both and len(seeds) >= 2,
               f"calls {sorted(k for k in calls if k.endswith('seed'))}")
    # other draws
    n = 0
    allowed = {"random.choice", "random.randint", "random.random", "random.uniform", "random.sample", "random.shuffle", "random.randrange"}
    mods = [m for m in ix.modules.values() if m.path.startswith(PKG) or m.name == "primaite.game.science"]
    for mi in mods:
        from_random = {k for k, v in mi.imports.items() if v.startswith("random.")}
        for f in [x for x in ix.functions if x.module is mi]:
            for c in calls_in(f.node):
                t = unparse(c.func)
                is_draw = (t.startswith("random.") and mi.imports.get("random") == "random") or (isinstance(c.func, ast.Name) and c.func.id in from_random) \
                    or t.startswith(("np.random.", "numpy.random.", "secrets.", "os.urandom")) or t in ("uuid4", "uuid.uuid4")
                if not is_draw:
                    continue
                n += 1
                ok = t in allowed or (isinstance(c.func, ast.Name) and mi.imports.get(c.func.id) in {a for a in allowed})
                seq = sum(1 for i in ctx.instances if i.rule == R and i.key.startswith(ctx.key(f, f"draw {t}")))
                ctx.record(R, ctx.key(f, f"draw {t}") + (f" #{seq + 1}" if seq else ""), f.loc(c), ok,
                           "stdlib global source, seeded by set_random_seed" if ok else "random draw from a source set_random_seed does not seed")
    # lambdas in class bodies (field default factories) are not functions of the index: covered by the rng check above
    ctx.floor(R, "random draws in the scripted agents", n, 6)


def r19_6(ctx: Ctx) -> None:
    """Stage progression rests on the response to the agent's own previous *turn*.  Between two turns (frequency > 1) the
    history holds do-nothing items whose response is always success, so the handler must index the history with the
    previous turn's timestep - not with a fixed position such as -1."""
    ix = ctx.ix
    R = "R19.6"
    ctx.rule(R, "the kill-chain return handler reads the history item of the agent's previous turn: history[<its timestep "
                "parameter>], and every caller passes self.current_timestep (updated only when the agent takes a turn)")
    h = ix.method("AbstractTAP._tap_return_handler")
    params = [a.arg for a in h.node.args.args[1:]]
    subs = [x for x in ast.walk(h.node) if isinstance(x, ast.Subscript) and unparse(x.value) == "self.history"]
    if not subs:
        raise AnalysisError("R19.6: _tap_return_handler no longer reads self.history[...] (idiom changed)")
    for i, x in enumerate(subs):
        idx = x.slice
        if isinstance(idx, ast.Name) and idx.id in params:
            ok, why = True, f"indexed with its parameter `{idx.id}`"
        elif isinstance(idx, ast.Constant) or (isinstance(idx, ast.UnaryOp) and isinstance(idx.operand, ast.Constant)):
            ok, why = False, (f"indexed with the fixed position {unparse(idx)}: with frequency > 1 that is the do-nothing item of an "
                              "in-between step (always success), so a failed kill-chain action goes unnoticed")
        else:
            raise AnalysisError(f"R19.6: cannot tell which history item `{unparse(x)}` denotes")
        ctx.record(R, ctx.key(h, f"history read #{i + 1} is the previous turn's item"), h.loc(x), ok, why)
    # the handler answers True for 'success' only: 'failure', 'unreachable', 'pending' (and anything else) count as not successful
    from ..absval import UNKNOWN, Evaluator, walk
    gh = CFG(h.node)
    status_exprs = sorted({unparse(x) for x in ast.walk(h.node) if isinstance(x, ast.Attribute) and x.attr == "status"})
    if len(status_exprs) != 1:
        raise AnalysisError(f"R19.6: cannot identify the response status the handler tests ({status_exprs})")
    bad_rows = []
    for st_ in ("success", "failure", "unreachable", "pending"):
        for rep in (True, False):
            env = {status_exprs[0]: st_, "self.config.agent_settings.repeat_kill_chain_stages": rep}
            ev = Evaluator(env, LocalDefs(h.node))
            out, node, _tr = walk(gh, ev)
            if out != "return":
                raise AnalysisError(f"R19.6: cannot evaluate _tap_return_handler for status {st_!r} ({out})")
            v = ev.ev(node.ast.value)
            if v is UNKNOWN or bool(v) != (st_ == "success"):
                bad_rows.append(f"status {st_!r} (repeat_kill_chain_stages={rep}): handler answers {v}")
    ctx.record(R, ctx.key(h, "successful only for status 'success'"), h.loc(), not bad_rows,
               "8-row table: True for 'success', False for 'failure' / 'unreachable' / 'pending'" if not bad_rows else
               "a response other than 'success' is taken for a success: the kill chain advances although the action did not happen", bad_rows[:4])
    n = 0
    for cs in call_sites(ix, ["_tap_return_handler"]):
        n += 1
        a = cs.call.args[0] if cs.call.args else (cs.call.keywords[0].value if cs.call.keywords else None)
        ok = a is not None and unparse(a) == "self.current_timestep"
        ctx.record(R, f"{cs.path}::{cs.owner}::handler is given the previous turn's timestep", cs.where, ok,
                   f"argument {unparse(a) if a is not None else '<none>'}")
        # and current_timestep moves only when a turn is taken: update_current_timestep is called after the handler on the same path
        if cs.fn is not None and not isinstance(cs.fn.node, ast.Lambda):
            g = CFG(cs.fn.node)
            hn = [nd for nd in g.nodes if any(c is cs.call for c in node_calls(nd))]
            upd = [nd for nd in g.nodes if any(call_name(c) == "update_current_timestep" for c in node_calls(nd))]
            before = [u for u in upd if hn and g.path_avoiding(hn, lambda e: False, start=u) is not None]
            ctx.record(R, f"{cs.path}::{cs.owner}::current_timestep is advanced only after the handler has looked at the previous turn",
                       cs.where, bool(upd) and not before,
                       f"{len(upd)} update_current_timestep call(s), none before the handler" if upd and not before else
                       "current_timestep is overwritten before the previous turn's response is examined")
    ctx.floor(R, "callers of _tap_return_handler", n, 2)
    # at the end of the chain (SUCCEEDED / FAILED) the turn that notices it emits nothing: every path of _tap_outcome_handler through
    # that edge stores chosen_action = do-nothing before it returns (otherwise the last action fires once more)
    oh = ix.method("AbstractTAP._tap_outcome_handler")
    go = CFG(oh.node)
    end_edges = [e for e in go.edges() if e.label and e.label[0] == "cond" and e.label[2] is True and isinstance(e.label[1], ast.Compare)
                 and any(isinstance(x, ast.Attribute) and x.attr in ("SUCCEEDED", "FAILED") for x in ast.walk(e.label[1]))
                 and "current_kill_chain_stage" in unparse(e.label[1])]
    if not end_edges:
        raise AnalysisError("R19.6: the end-of-chain test of _tap_outcome_handler was not recognised")
    idle = {n.id for n in go.nodes if n.kind == "stmt" and isinstance(n.ast, ast.Assign) and any(unparse(t) == "self.chosen_action" for t in n.ast.targets)
            and _is_do_nothing(n.ast.value)}
    wit = None
    for e in end_edges:
        wit = wit or (None if e.dst.id in idle else go.path_avoiding([go.exit], lambda x: False, start=e.dst, blocked_nodes=idle))
    ctx.record(R, ctx.key(oh, "the end of the chain emits do-nothing"), oh.loc(end_edges[0].label[1]), wit is None,
               "every path through the SUCCEEDED / FAILED edge sets chosen_action to do-nothing" if wit is None else
               "after the chain has ended the handler can return with the previous turn's action still chosen: it is issued once more", path_text(wit))
    writers = [s for s in _stores(ctx, "current_timestep") if s.path.startswith(PKG)]
    for s in writers:
        ok = s.owner.endswith(".update_current_timestep") or s.owner.endswith(".__init__") or s.fn is None
        ctx.record(R, f"{s.path}::{s.owner}::{s.kind} current_timestep", s.where, ok,
                   "written by update_current_timestep only" if ok else "current_timestep written outside update_current_timestep")




def r19_8(ctx: Ctx) -> None:
    """Name agreement: a dictionary literal that files settings under string keys, with at least two entries whose value is an
    attribute chain ending in an attribute that is itself one of the keys, files each such value under its own name.  `{"corrupt":
    cfg.PAYLOAD.exfiltrate, "exfiltrate": cfg.PAYLOAD.corrupt}` is the slip this finds."""
    ix = ctx.ix
    ctx.rule("R19.8", "settings copied into a keyed table keep their name: no two entries of a dictionary literal are crossed")
    n = 0
    for f in ix.all_functions():
        if isinstance(f.node, ast.Lambda) or "/game/agent/" not in f.path:
            continue
        for d in ast.walk(f.node):
            if not isinstance(d, ast.Dict):
                continue
            ent = [(k.value, v.attr, v) for k, v in zip(d.keys, d.values) if isinstance(k, ast.Constant) and isinstance(k.value, str)
                   and isinstance(v, ast.Attribute)]
            keys = {k for k, _, _ in ent}
            rel = [(k, a, v) for k, a, v in ent if a in keys]
            if len(rel) < 2:
                continue
            n += 1
            crossed = [(k, a) for k, a, _ in rel if k != a]
            ctx.record("R19.8", ctx.key(f, f"table with keys {sorted(keys)[:4]} keeps each setting under its own name"), f.loc(d), not crossed,
                       f"{len(rel)} entries agree with their keys" if not crossed else
                       "; ".join(f"key '{k}' is filled from `.{a}`" for k, a in crossed) + " - the settings are crossed")
    ctx.floor("R19.8", "keyed setting tables", n, 1)


def check(ctx: Ctx) -> None:
    agents = r19_1(ctx)
    r19_2(ctx)
    r19_3(ctx, agents)
    r19_4(ctx, agents)
    r19_5(ctx)
    r19_6(ctx)
    from .common import falsy_numeric
    falsy_numeric(ctx, "R19.7", r"probability|variance|frequency|start_step|max_executions", "scripted-agent settings")
    r19_8(ctx)
