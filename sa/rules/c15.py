"""C15 - the file system stays structurally consistent under any operation sequence."""
from __future__ import annotations

import ast
from typing import Dict, FrozenSet, List, Optional, Set, Tuple

from ..astutil import call_name, calls_in, kwarg, unparse
from ..cfg import CFG, CNode, Edge, LocalDefs, path_text
from ..index import AnalysisError, ClassInfo, FuncInfo
from ..inventory import call_sites
from ..inventory import only_called_from
from ..report import Ctx
from ..reqtree import _config_schema, action_routes
from ..types import func_types
from .common import node_calls, nodes_calling

EXPLANATION = (
    "Static analysis of the live/deleted partition and of the create routes. Decided: R15.1 partition typestate - a "
    "small abstract interpreter over the domain (in live dict, in deleted dict, deleted flag) runs every path of the "
    "partition-changing methods (Folder.add_file/remove_file/remove_file_by_name/remove_all_files/restore_file, "
    "FileSystem.delete_folder/restore_folder/create_folder) from each consistent starting state; at every exit the "
    "tracked item must be in exactly one dictionary and its flag must agree; File/Folder.delete and restore set/clear "
    "the flag; R15.2 the per-tick creation/deletion counters are reset to 0 unconditionally in FileSystem.pre_timestep, "
    "which Node.pre_timestep calls, and are incremented by the constant 1 only in create/delete/copy/move; R15.3 "
    "describe_state enumerates exactly files/deleted_files and folders/deleted_folders; R15.4 creating an existing item "
    "is not an error: on the create routes the existence look-ups are called with arguments of the declared kind, "
    "Folder.add_file (which raises on a duplicate name) is reached only on the 'did not exist' or 'force' edge, and no "
    "second item with the same name is inserted; R15.5 every non-ClassVar option of a file/folder action schema is read "
    "by its form_request, and the parameter the create handler reads as `force` is the action's `force`; R15.6 a forced "
    "Folder.add_file (which skips the duplicate-name test) receives either the object the look-up by name returned or a "
    "File constructed on the look-up's empty edge (listed exception: copy_file, callable only from restore_backup); R15.7 a look-up result that may be a deleted item "
    "(include_deleted=True) is filed in a live dictionary only after restore()/`deleted = False`, a re-binding to a new object, or "
    "on the not-deleted / not-found edge; describe_state of FileSystem/Folder/File stores nothing on the object; R15.8 = C05's R5.6 "
    "(an insertion into a routed collection registers the route on the same path, unconditionally) applied here. R15.9 = C11's R11.4 (the exists / not-deleted permission rules compute their documented predicate over the request's own arguments) applied here. "
    "R15.10 name look-ups that may return deleted items (FileSystem.get_folder, Folder.get_file) consult the live mapping first. "
    "NOT decided: "
    "bounded-exhaustive sequence conformance against a reference model."
)
TECHNIQUE = "static: abstract interpreter over (in live, in deleted, flag) on every path of the partition-changing methods, CFG must-pass on create routes, option def-use"
ASSUMPTIONS = ["uuids are unique per item (dict keys)", "only the listed methods write files/deleted_files/folders/deleted_folders (R15.1 who-may-write)"]

State = Tuple[bool, bool, bool]  # (in live, in deleted, deleted flag)

PARTITION_METHODS = [
    # (method, item variable, live attr, deleted attr, starting states)
    ("Folder.add_file", "file", "files", "deleted_files", "absent,live"),
    ("Folder.remove_file", "file", "files", "deleted_files", "live,deleted"),
    ("Folder.remove_file_by_name", "f", "files", "deleted_files", "live"),
    ("Folder.remove_all_files", "file", "files", "deleted_files", "live"),
    ("Folder.restore_file", "file", "files", "deleted_files", "live,deleted"),
    ("FileSystem.delete_folder", "folder", "folders", "deleted_folders", "live"),
    ("FileSystem.restore_folder", "folder", "folders", "deleted_folders", "live,deleted"),
    ("FileSystem.create_folder", "folder", "folders", "deleted_folders", "absent,live"),
]
START = {"absent": (False, False, False), "live": (True, False, False), "deleted": (False, True, True)}
PARTITION_WRITERS = {
    "files": {"Folder.add_file", "Folder.remove_file", "Folder.remove_all_files", "Folder.restore_file"},
    "deleted_files": {"Folder.remove_file", "Folder.remove_all_files", "Folder.restore_file"},
    "folders": {"FileSystem.create_folder", "FileSystem.delete_folder", "FileSystem.restore_folder"},
    "deleted_folders": {"FileSystem.delete_folder", "FileSystem.restore_folder"},
}


def consistent(s: State) -> bool:
    return (s[0] != s[1]) and (s[2] == s[1])


class PartitionSim:
    def __init__(self, ix, fn: FuncInfo, item: str, live: str, dead: str, depth: int = 2):
        self.ix, self.fn, self.live, self.dead, self.depth = ix, fn, live, dead, depth
        # the tracked item: the parameter named in the table, otherwise the local that is filed in / looked up from the two
        # dictionaries (found by its use, not by its name - a renamed local must not blind the analysis)
        params = {a.arg for a in fn.node.args.args + fn.node.args.kwonlyargs}
        if item not in params:
            from collections import Counter
            cands: Counter = Counter()
            dicts = (f"self.{live}", f"self.{dead}")
            for n in ast.walk(fn.node):
                if isinstance(n, ast.Assign) and isinstance(n.value, ast.Name):
                    for t in n.targets:
                        if isinstance(t, ast.Subscript) and unparse(t.value) in dicts:
                            cands[n.value.id] += 2
                if isinstance(n, ast.Call) and isinstance(n.func, ast.Attribute) and n.func.attr in ("pop", "get") and unparse(n.func.value) in dicts \
                        and n.args and isinstance(n.args[0], ast.Attribute) and n.args[0].attr == "uuid" and isinstance(n.args[0].value, ast.Name):
                    cands[n.args[0].value.id] += 1
                if isinstance(n, ast.Call) and isinstance(n.func, ast.Attribute) and n.func.attr in ("delete", "restore") and isinstance(n.func.value, ast.Name) \
                        and n.func.value.id not in ("self",):
                    cands[n.func.value.id] += 1
                if isinstance(n, ast.For) and isinstance(n.iter, ast.Call) and isinstance(n.iter.func, ast.Attribute) and unparse(n.iter.func.value) in dicts:
                    if n.iter.func.attr == "values" and isinstance(n.target, ast.Name):
                        cands[n.target.id] += 2
                    if n.iter.func.attr == "items" and isinstance(n.target, ast.Tuple) and len(n.target.elts) == 2 and isinstance(n.target.elts[1], ast.Name):
                        cands[n.target.elts[1].id] += 2
                if isinstance(n, ast.Assign) and isinstance(n.value, ast.Call) and (call_name(n.value) or "").startswith(("get_file", "get_folder")):
                    for t in n.targets:
                        if isinstance(t, ast.Name):
                            cands[t.id] += 1
            if not cands:
                raise AnalysisError(f"R15.1: cannot identify the item that {fn.short} moves between self.{live} and self.{dead}")
            item = cands.most_common(1)[0][0]
        self.item = item
        self.g = CFG(fn.node)
        self.ld = LocalDefs(fn.node)
        self.keys = {f"{item}.uuid"}
        # loop variables ranging over the dictionaries' keys, and locals holding the item's key
        for n in ast.walk(fn.node):
            if isinstance(n, ast.For) and isinstance(n.target, ast.Name) and unparse(n.iter) in (
                    f"self.{live}", f"self.{dead}", f"self.{live}.keys()", f"self.{dead}.keys()"):
                self.keys.add(n.target.id)
            if isinstance(n, ast.For) and isinstance(n.target, ast.Tuple) and len(n.target.elts) == 2 and isinstance(n.target.elts[0], ast.Name) \
                    and unparse(n.iter) in (f"self.{live}.items()", f"self.{dead}.items()"):
                self.keys.add(n.target.elts[0].id)

    # ---- recognisers
    def _is_key(self, e: ast.AST) -> bool:
        return unparse(e) in self.keys

    def _dict_of(self, e: ast.AST) -> Optional[int]:
        t = unparse(e)
        if t == f"self.{self.live}":
            return 0
        if t == f"self.{self.dead}":
            return 1
        return None

    def effect(self, n: CNode, s: State) -> Set[State]:
        a = n.ast
        st = list(s)
        out: Optional[Set[State]] = None
        if n.kind != "stmt" or a is None:
            return {s}
        if isinstance(a, ast.Assign):
            for t in a.targets:
                if isinstance(t, ast.Subscript):
                    d = self._dict_of(t.value)
                    if d is not None and self._is_key(t.slice) and unparse(a.value) == self.item:
                        st[d] = True
                d2 = self._dict_of(t)
                if d2 is not None and isinstance(a.value, (ast.Dict,)) and not a.value.keys:
                    st[d2] = False
        if isinstance(a, ast.Delete):
            for t in a.targets:
                if isinstance(t, ast.Subscript):
                    d = self._dict_of(t.value)
                    if d is not None and self._is_key(t.slice):
                        st[d] = False
        for c in node_calls(n):
            f = c.func
            if isinstance(f, ast.Attribute):
                d = self._dict_of(f.value)
                if d is not None and f.attr == "pop" and c.args and self._is_key(c.args[0]):
                    st[d] = False
                elif d is not None and f.attr == "clear":
                    st[d] = False
                elif unparse(f.value) == self.item and f.attr == "delete":
                    st[2] = True
                elif unparse(f.value) == self.item and f.attr == "restore":
                    st[2] = False
                elif unparse(f.value) == "self" and self.depth > 0 and any(unparse(x) == self.item for x in c.args):
                    # intra-class call on the tracked item: apply the callee's summary
                    owner = self.fn.cls
                    callee = self.ix.find_method(owner, f.attr) if owner else None
                    if callee is not None and not isinstance(callee.node, ast.Lambda):
                        pos = [unparse(x) for x in c.args].index(self.item)
                        params = [p.arg for p in callee.node.args.args[1:]]
                        if pos < len(params):
                            sub = PartitionSim(self.ix, callee, params[pos], self.live, self.dead, self.depth - 1)
                            return sub.run(tuple(st))
        return {tuple(st)}

    def cond(self, e: ast.AST, s: State) -> Optional[bool]:
        """Truth of an atomic condition in state s, or None if it does not depend on the tracked facts."""
        t = unparse(e)
        if t == f"{self.item}.deleted":
            return s[2]
        if t == self.item:
            return True
        if isinstance(e, ast.Compare) and len(e.ops) == 1:
            l, r = e.left, e.comparators[0]
            if unparse(l) == self.item and isinstance(r, ast.Constant) and r.value is None:
                return isinstance(e.ops[0], (ast.IsNot, ast.NotEq))
            if isinstance(e.ops[0], (ast.In, ast.NotIn)) and self._is_key(l):
                d = self._dict_of(r)
                if d is not None:
                    return s[d] == isinstance(e.ops[0], ast.In)
        if isinstance(e, ast.Call):
            if isinstance(e.func, ast.Name) and e.func.id == "isinstance" and e.args and unparse(e.args[0]) == self.item:
                return True
            if isinstance(e.func, ast.Attribute) and e.func.attr == "get" and e.args and self._is_key(e.args[0]):
                d = self._dict_of(e.func.value)
                if d is not None:
                    return s[d]
        return None

    def run(self, start: State) -> Set[State]:
        finals: Set[State] = set()
        seen: Set[Tuple[int, State, FrozenSet[int]]] = set()
        stack: List[Tuple[CNode, State, FrozenSet[int]]] = [(self.g.entry, start, frozenset())]
        steps = 0
        while stack:
            steps += 1
            if steps > 20000:
                raise AnalysisError(f"R15.1: path exploration of {self.fn.short} did not converge")
            n, s, used = stack.pop()
            key = (n.id, s, used)
            if key in seen:
                continue
            seen.add(key)
            if n.kind == "exit":
                finals.add(s)
                continue
            if n.kind == "raise":
                continue  # an exception leaves the state as it was at the raise; reported by R15.4, not here
            for s2 in self.effect(n, s):
                for e in self.g.succ[n.id]:
                    if e.label and e.label[0] == "exc":
                        continue
                    if e.label and e.label[0] == "cond":
                        v = self.cond(e.label[1], s2)
                        if v is not None and v != e.label[2]:
                            continue
                    if e.label and e.label[0] == "iter":
                        it = n.ast.iter
                        over = unparse(it).replace(".values()", "").replace(".items()", "").replace(".keys()", "")
                        d = 0 if over == f"self.{self.live}" else 1 if over == f"self.{self.dead}" else None
                        if e.label[2]:
                            if n.id in used:
                                continue  # one iteration for the tracked item is enough
                            if d is not None and not s2[d]:
                                continue  # the tracked item is not in the dictionary being iterated
                            stack.append((e.dst, s2, used | {n.id}))
                            continue
                        else:
                            if d is not None and s2[d] and n.id not in used:
                                continue  # the loop must visit the tracked item before it can be exhausted
                    stack.append((e.dst, s2, used))
        return finals


def r15_1(ctx: Ctx) -> None:
    ix = ctx.ix
    ctx.rule("R15.1", "partition typestate: from each consistent start state every exit leaves the item in exactly one "
                      "of live/deleted with an agreeing flag; single writers of the four dictionaries")
    for spec, item, live, dead, starts in PARTITION_METHODS:
        fn = ix.method(spec)
        sim = PartitionSim(ix, fn, item, live, dead)
        for st in starts.split(","):
            finals = sim.run(START[st])
            bad = sorted(f for f in finals if not consistent(f) and not (st == "absent" and f == START["absent"]))
            ctx.record("R15.1", ctx.key(fn, f"from {st}"), fn.loc(), not bad and bool(finals),
                       f"exit states (live, deleted, flag) {sorted(finals)}" if not bad else
                       f"{spec} can leave the item in (in live, in deleted, deleted flag) = {bad} when it starts {st}")
    for cname in ("File", "Folder"):
        for m, val in (("delete", True), ("restore", False)):
            f = ix.method(f"{cname}.{m}")
            g = CFG(f.node)
            stores = [n for n in g.nodes if n.kind == "stmt" and isinstance(n.ast, ast.Assign) and any(unparse(t) == "self.deleted" for t in n.ast.targets)]
            ok = bool(stores) and all(isinstance(s.ast.value, ast.Constant) and s.ast.value.value is val for s in stores)
            if m == "restore":
                # a deleted item must leave restore() with the flag cleared: no path from the deleted edge to exit avoiding the store
                p = g.path_avoiding([g.exit], lambda e: bool(e.label and e.label[0] == "cond" and unparse(e.label[1]) == "self.deleted" and e.label[2] is False),
                                    blocked_nodes={s.id for s in stores})
                ok = ok and p is None
            else:
                p = g.path_avoiding([g.exit], lambda e: bool(e.label and e.label[0] == "cond" and unparse(e.label[1]) == "self.deleted" and e.label[2] is True),
                                    blocked_nodes={s.id for s in stores})
                ok = ok and p is None
            ctx.record("R15.1", ctx.key(f, f"sets deleted={val}"), f.loc(), ok,
                       f"{cname}.{m} leaves deleted == {val}" if ok else f"{cname}.{m} can return without deleted == {val}", path_text(p))
    from ..inventory import stores_to_attr
    n = 0
    for s in stores_to_attr(ix, list(PARTITION_WRITERS)):
        if s.fn is None or s.fn.cls is None or s.fn.cls.short not in ("Folder", "FileSystem"):
            continue
        if unparse(s.recv) != "self":
            continue
        n += 1
        ok = s.owner in PARTITION_WRITERS[s.attr] or bool(only_called_from(ix, s.fn, PARTITION_WRITERS[s.attr]))
        ctx.record("R15.1", f"{s.path}::{s.owner}::{s.kind} {s.attr}", s.where, ok,
                   "partition-changing method analysed above" if ok else "writer of a partition dictionary that the typestate analysis does not cover")
    ctx.floor("R15.1", "writers of the partition dictionaries", n, 8)


def r15_2(ctx: Ctx) -> None:
    ix = ctx.ix
    ctx.rule("R15.2", "per-tick counters start at zero (reset in pre_timestep on the Node.pre_timestep path) and only "
                      "count creations/deletions by 1")
    pre = ix.method("FileSystem.pre_timestep")
    g = CFG(pre.node)
    for attr in ("num_file_creations", "num_file_deletions"):
        z = [n for n in g.nodes if n.kind == "stmt" and isinstance(n.ast, ast.Assign) and any(unparse(t) == f"self.{attr}" for t in n.ast.targets)]
        lo, hi = g.count_range(lambda n: n in z)
        ok = (lo, hi) == (1, 1) and all(isinstance(x.ast.value, ast.Constant) and x.ast.value.value == 0 for x in z)
        ctx.record("R15.2", ctx.key(pre, f"{attr} = 0 every tick"), pre.loc(), ok, f"reset executed {lo}..{hi} times per call")
    npre = ix.method("Node.pre_timestep")
    gg = CFG(npre.node)
    ns = [n for n in gg.nodes if any(unparse(c.func) == "self.file_system.pre_timestep" for c in node_calls(n))]
    lo, hi = gg.count_range(lambda n: n in ns)
    ctx.record("R15.2", ctx.key(npre, "forwards pre_timestep to the file system"), npre.loc(), (lo, hi) == (1, 1), f"called {lo}..{hi} times")
    from ..inventory import stores_to_attr
    allowed = {"FileSystem.pre_timestep", "FileSystem.create_file", "FileSystem.delete_file", "FileSystem.copy_file", "FileSystem.move_file",
               "DatabaseService._process_sql"}  # INSERT / DELETE queries count as a creation / deletion in the database file
    for s in stores_to_attr(ix, ["num_file_creations", "num_file_deletions"]):
        if s.fn is None:
            continue
        ok = (s.owner in allowed or bool(only_called_from(ix, s.fn, allowed))) and (
            s.kind != "aug" or (isinstance(s.value, ast.Constant) and s.value.value == 1))
        ctx.record("R15.2", f"{s.path}::{s.owner}::{s.kind} {s.attr}", s.where, ok,
                   "counter touched only by reset (=0) and create/delete/copy/move (+1)" if ok else "unexpected writer or step of a per-tick counter")


def r15_3(ctx: Ctx) -> None:
    ix = ctx.ix
    ctx.rule("R15.3", "describe_state lists exactly the live and the deleted items")
    for spec, pairs in (("Folder.describe_state", (("files", "self.files"), ("deleted_files", "self.deleted_files"))),
                        ("FileSystem.describe_state", (("folders", "self.folders"), ("deleted_folders", "self.deleted_folders")))):
        f = ix.method(spec)
        found: Dict[str, str] = {}
        for n in ast.walk(f.node):
            if isinstance(n, ast.Assign) and isinstance(n.targets[0], ast.Subscript) and isinstance(n.targets[0].slice, ast.Constant):
                if isinstance(n.value, ast.DictComp):
                    found[n.targets[0].slice.value] = unparse(n.value.generators[0].iter) + (" if " + unparse(n.value.generators[0].ifs[0]) if n.value.generators[0].ifs else "")
            if isinstance(n, ast.Dict):
                for k, v in zip(n.keys, n.values):
                    if isinstance(k, ast.Constant) and isinstance(v, ast.DictComp):
                        found[k.value] = unparse(v.generators[0].iter) + (" if " + unparse(v.generators[0].ifs[0]) if v.generators[0].ifs else "")
        for key, src in pairs:
            got = found.get(key, "")
            ok = got.replace(".values()", "").replace(".items()", "") == src
            ctx.record("R15.3", ctx.key(f, f"state['{key}'] enumerates {src}"), f.loc(), ok, f"state['{key}'] is built from `{got}`")


def r15_4(ctx: Ctx) -> None:
    ix = ctx.ix
    ctx.rule("R15.4", "creating an existing item is not an error: look-ups get arguments of the declared kind; "
                      "add_file (raises on duplicates) only on the not-existing/force edge; no duplicate insertion")
    # (a) argument kinds for calls between file-system methods
    n = 0
    for mi in ix.modules.values():
        if not mi.path.startswith("src/primaite/simulator/file_system/"):
            continue
        for fn in ix.funcs_in_module(mi.path):
            if isinstance(fn.node, ast.Lambda):
                continue
            ft = func_types(ix, fn)
            for c in calls_in(fn.node):
                if not isinstance(c.func, ast.Attribute):
                    continue
                rc, sh = ft.expr_type(c.func.value)
                if rc is None or sh != "scalar":
                    continue
                callee = ix.find_method(rc, c.func.attr)
                if callee is None or isinstance(callee.node, ast.Lambda):
                    continue
                params = callee.node.args.args[1:]
                pairs = list(zip(params, c.args)) + [(p, k.value) for k in c.keywords for p in params if p.arg == k.arg]
                for p, a in pairs:
                    if p.annotation is None:
                        continue
                    ann = unparse(p.annotation)
                    if ann not in ("str", "Optional[str]", "int", "bool"):
                        continue
                    ac, ash = ft.expr_type(a)
                    n += 1
                    key = ctx.key(fn, f"{unparse(c.func)}({p.arg}={unparse(a)[:30]})")
                    if ac is not None and ash == "scalar":
                        ctx.fail("R15.4", key, fn.loc(c),
                                 f"parameter `{p.arg}: {ann}` of {callee.short} receives `{unparse(a)}`, statically a {ac.short} object - "
                                 "the look-up can never match, so the 'already exists' case is not recognised")
                    else:
                        ctx.ok("R15.4", key, fn.loc(c), f"{p.arg}: {ann} <- {unparse(a)[:40]}")
    ctx.floor("R15.4", "typed look-up arguments", n, 30)
    # (b) Folder.add_file raises on a duplicate name (and the Python API create_file propagates that, as the unit tests
    # expect); the *request* route must therefore refuse or skip before it gets there: in the create-file handler the
    # call to create_file is reached only on the "no such file" edge or the "force" edge
    irm = ix.method("FileSystem._init_request_manager")
    handler = next((f for f in ix.nested_funcs(irm) if f.name == "_create_file_action"), None)
    if handler is None:
        raise AnalysisError("R15.4: create-file handler not found")
    g = CFG(handler.node)
    creates = nodes_calling(g, ["create_file"])
    if not creates:
        raise AnalysisError("R15.4: the create-file handler no longer calls create_file")
    cc = [c for c in node_calls(creates[0]) if call_name(c) == "create_file"][0]
    force_src = unparse(kwarg(cc, "force")) if kwarg(cc, "force") is not None else None
    ld = LocalDefs(handler.node)

    def sat(e) -> bool:
        if not (e.label and e.label[0] == "cond"):
            return False
        x, pol = ld.expand(e.label[1]), e.label[2]
        if force_src is not None and unparse(x) == force_src:
            return pol is True
        if isinstance(x, ast.Compare) and len(x.ops) == 1 and isinstance(x.comparators[0], ast.Constant) and x.comparators[0].value is None \
                and isinstance(x.left, ast.Call) and call_name(x.left) == "get_file":
            return pol == isinstance(x.ops[0], (ast.Is, ast.Eq))
        if isinstance(x, ast.Call) and call_name(x) == "get_file":
            return pol is False
        return False

    p = g.path_avoiding(creates, sat)
    ctx.record("R15.4", ctx.key(handler, "create_file only when the file is new or force is set"), handler.loc(creates[0].ast), p is None,
               "the create request reaches create_file (which raises on a duplicate name) only on the not-existing or force edge" if p is None else
               "a create request for an existing file reaches create_file without force: Folder.add_file raises out of the request", path_text(p))
    cf = ix.method("FileSystem.create_file")
    lk = [c for c in calls_in(cf.node) if call_name(c) == "get_file"]
    ctx.record("R15.4", ctx.key(cf, "existence look-up before creating"), cf.loc(), bool(lk),
               f"create_file looks the file up first: {[unparse(c)[:50] for c in lk]}")
    af = ix.method("Folder.add_file")
    ga = CFG(af.node)
    st = [n for n in ga.nodes if n.kind == "stmt" and isinstance(n.ast, ast.Assign) and any(
        isinstance(t, ast.Subscript) and unparse(t.value) == "self.files" for t in n.ast.targets)]

    def dup_guard(e) -> bool:
        # edge on which "no live file with this name" or "force" holds
        if not (e.label and e.label[0] == "cond"):
            return False
        x, pol = e.label[1], e.label[2]
        t = unparse(x)
        if t == "force":
            return pol is True
        if "get_file(file.name)" in t and isinstance(x, ast.Compare):
            return pol == isinstance(x.ops[0], (ast.Is, ast.Eq))
        return False

    p = ga.path_avoiding(st, dup_guard)
    ctx.record("R15.4", ctx.key(af, "no second live file with the same name"), af.loc(), p is None and bool(st),
               "the insertion is reached only when no live file has that name, or with force" if p is None else
               "a duplicate name can be inserted", path_text(p))
    cfo = ix.method("FileSystem.create_folder")
    gf = CFG(cfo.node)
    ctor = [n for n in gf.nodes if any(call_name(c) == "Folder" for c in node_calls(n))]
    p = gf.path_avoiding(ctor, lambda e: bool(e.label and e.label[0] == "cond" and isinstance(e.label[1], ast.Name) and e.label[2] is False
                                              and any(isinstance(v, ast.Call) and call_name(v) == "get_folder" for v, _ in LocalDefs(cfo.node).all_values(e.label[1].id) if v is not None)))
    raises = [n for n in ast.walk(cfo.node) if isinstance(n, ast.Raise)]
    ctx.record("R15.4", ctx.key(cfo, "existing folder is reused, not duplicated, no raise"), cfo.loc(), p is None and not raises,
               "a new Folder is constructed only when get_folder found none; no raise" if p is None and not raises else
               "create_folder duplicates or raises for an existing folder", path_text(p))


def r15_5(ctx: Ctx) -> None:
    ix = ctx.ix
    ctx.rule("R15.5", "no ignored action option: every option of a file/folder action is read by its form_request; the "
                      "create handler's `force` parameter receives the action's `force`")
    routes, probs = action_routes(ix)
    n = 0
    for r in routes:
        if not r.cls.path.endswith(("actions/file.py", "actions/folder.py")):
            continue
        cfg = r.config_cls
        if cfg is None:
            continue
        fields: Dict[str, ClassInfo] = {}
        for c in reversed(ix.mro(cfg)):
            for nm, fld in c.fields.items():
                if fld.classvar or nm in ("type", "model_config"):
                    fields.pop(nm, None) if fld.classvar else None
                    continue
                fields[nm] = c
        used = {a.attr for a in ast.walk(r.form.node) if isinstance(a, ast.Attribute) and isinstance(a.value, ast.Name)
                and a.value.id in ("config",)}
        for nm in sorted(fields):
            n += 1
            ok = nm in used
            ctx.record("R15.5", f"{r.cls.path}::{r.cls.short}::option {nm} is used", r.where, ok,
                       f"form_request reads config.{nm}" if ok else
                       f"option `{nm}` of action {r.discriminator} is accepted by the schema but never reaches the request (silently ignored)")
    ctx.floor("R15.5", "file/folder action options", n, 30)
    # the parameter read as force
    irm = ix.method("FileSystem._init_request_manager")
    handler = next((f for f in ix.nested_funcs(irm) if f.name == "_create_file_action"), None)
    if handler is None:
        raise AnalysisError("R15.5: create-file handler not found")
    idx = None
    for c in calls_in(handler.node):
        if call_name(c) == "create_file":
            v = kwarg(c, "force")
            if isinstance(v, ast.Subscript) and isinstance(v.slice, ast.Constant):
                idx = v.slice.value
    act = next((r for r in routes if r.discriminator == "node-file-create"), None)
    if idx is None or act is None:
        raise AnalysisError("R15.5: cannot locate the force parameter of the create route")
    k = next(i for i, s in enumerate(act.segs) if s.kind == "lit" and s.value == "file" and i > 3)
    params = act.segs[k + 1:]
    src = params[idx].src if idx < len(params) else "<missing>"
    ok = src == "config.force"
    ctx.record("R15.5", f"{act.cls.path}::{act.cls.short}::request parameter {idx} (read as force) carries config.force", act.where, ok,
               f"the handler reads request[{idx}] as `force`; the action sends `{src}` there")


# forced insertions whose name-uniqueness rests on the caller: reason + the functions that may call them
FORCED_INSERT_CALLERS = {
    "FileSystem.copy_file": ("inserts a fresh copy with force=True; its only caller DatabaseService.restore_backup deletes "
                             "the live file of that name first (C14 R14.2)", {"DatabaseService.restore_backup"}),
}


def r15_6(ctx: Ctx) -> None:
    """Folder.add_file(force=True) skips the duplicate-name test, so with force the caller is responsible: a *new* File
    object may be handed over only on a path on which the look-up by that name came back empty (re-adding the object the
    look-up returned is idempotent: same uuid)."""
    ix = ctx.ix
    ctx.rule("R15.6", "a forced add_file never puts a second object under a live name: a freshly constructed File is inserted "
                      "with force only where the look-up by name found nothing (or the caller is a listed exception)")
    n = 0
    for fn in ix.functions:
        if isinstance(fn.node, ast.Lambda) or not fn.path.startswith("src/primaite/simulator/"):
            continue
        for c in calls_in(fn.node):
            if call_name(c) != "add_file" or not isinstance(c.func, ast.Attribute):
                continue
            fv = kwarg(c, "force", 1)
            if fv is None or (isinstance(fv, ast.Constant) and fv.value is False):
                continue
            n += 1
            key = ctx.key(fn, f"forced {unparse(c)[:50]}")
            if fn.short in FORCED_INSERT_CALLERS:
                reason, allowed = FORCED_INSERT_CALLERS[fn.short]
                callers = {cs.owner for cs in call_sites(ix, [fn.name]) if cs.owner != fn.short and not cs.path.startswith("src/primaite/setup/")}
                ok = callers <= allowed
                ctx.record("R15.6", key, fn.loc(c), ok, reason if ok else
                           f"{fn.short} inserts with force without a name check and is now also called from {sorted(callers - allowed)}")
                continue
            g = CFG(fn.node)
            ld = LocalDefs(fn.node)
            obj = c.args[0] if c.args else kwarg(c, "file")
            if not isinstance(obj, ast.Name):
                raise AnalysisError(f"R15.6: cannot follow the object handed to {unparse(c)[:50]} in {fn.short}")
            vals = ld.all_values(obj.id)
            lookups = {obj.id} if any(isinstance(v, ast.Call) and call_name(v) in ("get_file", "get_file_by_id") for v, _ in vals if v is not None) else set()
            ctors = [nd for nd in g.nodes if nd.kind == "stmt" and isinstance(nd.ast, (ast.Assign, ast.AnnAssign))
                     and isinstance(getattr(nd.ast, "value", None), ast.Call) and call_name(nd.ast.value) == "File"
                     and any(isinstance(t, ast.Name) and t.id == obj.id for t in (nd.ast.targets if isinstance(nd.ast, ast.Assign) else [nd.ast.target]))]
            others = [v for v, _ in vals if v is not None and not (isinstance(v, ast.Call) and call_name(v) in ("get_file", "get_file_by_id", "File"))]
            if others or not lookups:
                raise AnalysisError(f"R15.6: {fn.short} hands add_file(force=...) an object of unrecognised origin ({[unparse(v)[:40] for v in others]})")

            def empty_edge(e) -> bool:
                if not (e.label and e.label[0] == "cond"):
                    return False
                x, pol = e.label[1], e.label[2]
                if isinstance(x, ast.Name) and x.id in lookups:
                    return pol is False
                if isinstance(x, ast.UnaryOp) and isinstance(x.op, ast.Not) and isinstance(x.operand, ast.Name) and x.operand.id in lookups:
                    return pol is True
                if isinstance(x, ast.Compare) and len(x.ops) == 1 and isinstance(x.left, ast.Name) and x.left.id in lookups \
                        and isinstance(x.comparators[0], ast.Constant) and x.comparators[0].value is None:
                    return pol == isinstance(x.ops[0], (ast.Is, ast.Eq))
                return False

            p = g.path_avoiding(ctors, empty_edge) if ctors else None
            ctx.record("R15.6", key, fn.loc(c), p is None,
                       f"`{obj.id}` is either what the look-up by name returned or a File constructed on its empty edge" if p is None else
                       f"a new File can be constructed while the look-up found a live file of that name and is then inserted with "
                       f"force: two live files share the name", path_text(p))
    ctx.floor("R15.6", "forced insertions", n, 2)



LIVE_DICTS = {"files": "deleted_files", "folders": "deleted_folders"}


def r15_7(ctx: Ctx) -> None:
    """An item obtained from a look-up that may return *deleted* items (include_deleted=True) is filed in a live dictionary only
    after it was restored (x.restore() / x.deleted = False) or on the edge where its flag is known to be clear - otherwise the same
    object is live and deleted at once.  And describe_state of the file-system classes stores nothing: the reported state is
    computed from the dictionaries each time, not remembered."""
    ix = ctx.ix
    ctx.rule("R15.7", "a possibly-deleted look-up result enters a live dictionary only restored; describe_state keeps no memory")
    n = 0
    for fn in ix.functions:
        if isinstance(fn.node, ast.Lambda) or not fn.path.startswith("src/primaite/simulator/file_system/"):
            continue
        ld = LocalDefs(fn.node)
        maybe_deleted = set()
        for nm in ld.defs:
            for v, i in ld.all_values(nm):
                if isinstance(v, ast.Call) and call_name(v) in ("get_file", "get_folder", "get_file_by_id", "get_folder_by_id"):
                    inc = kwarg(v, "include_deleted")
                    if inc is not None and not (isinstance(inc, ast.Constant) and inc.value is False):
                        maybe_deleted.add(nm)
        if not maybe_deleted:
            continue
        g = CFG(fn.node)
        for nm in sorted(maybe_deleted):
            files = [x for x in g.nodes if x.kind == "stmt" and isinstance(x.ast, ast.Assign) and any(
                isinstance(t, ast.Subscript) and isinstance(t.value, ast.Attribute) and t.value.attr in LIVE_DICTS and unparse(t.value.value) == "self"
                for t in x.ast.targets) and isinstance(x.ast.value, ast.Name) and x.ast.value.id == nm]
            if not files:
                continue
            n += 1
            cleared = {x.id for x in g.nodes if any(call_name(c) == "restore" and isinstance(c.func, ast.Attribute) and unparse(c.func.value) == nm for c in node_calls(x))
                       or (x.kind == "stmt" and isinstance(x.ast, ast.Assign) and any(unparse(t) == f"{nm}.deleted" for t in x.ast.targets)
                           and isinstance(x.ast.value, ast.Constant) and x.ast.value.value is False)}
            rebinds = {x.id for x in g.nodes if x.kind == "stmt" and isinstance(x.ast, ast.Assign) and any(isinstance(t, ast.Name) and t.id == nm for t in x.ast.targets)
                       and not (isinstance(x.ast.value, ast.Call) and call_name(x.ast.value) in ("get_file", "get_folder", "get_file_by_id", "get_folder_by_id"))}

            def safe(e) -> bool:
                if not (e.label and e.label[0] == "cond"):
                    return False
                t = unparse(e.label[1])
                if t == f"{nm}.deleted":
                    return e.label[2] is False
                if t == nm:
                    return e.label[2] is False  # nothing found: what is filed afterwards is a new object
                return False

            p = g.path_avoiding(files, safe, blocked_nodes=cleared | rebinds)
            ctx.record("R15.7", ctx.key(fn, f"`{nm}` (look-up incl. deleted) is filed live only restored"), fn.loc(files[0].ast), p is None,
                       f"every path from the look-up to `self.<live>[...] = {nm}` restores `{nm}`, re-binds it to a new object, or knows it is not deleted"
                       if p is None else
                       f"`{nm}` may be a deleted item (look-up with include_deleted=True) and is put into a live dictionary without being "
                       f"restored: the same object is then both live and deleted", path_text(p))
    ctx.floor("R15.7", "possibly-deleted look-up results filed live", n, 2)
    for spec in ("FileSystem.describe_state", "Folder.describe_state", "File.describe_state"):
        f = ix.method(spec)
        bad = [f"line {x.lineno}: {unparse(x)[:60]}" for x in ast.walk(f.node) if isinstance(x, (ast.Assign, ast.AugAssign)) and any(
            "self." in unparse(t) and not isinstance(t, ast.Name) for t in (x.targets if isinstance(x, ast.Assign) else [x.target]))]
        bad += [f"line {c.lineno}: {unparse(c)[:60]}" for c in calls_in(f.node) if isinstance(c.func, ast.Attribute) and c.func.attr in (
            "setdefault", "update", "append", "pop", "add", "clear") and unparse(c.func.value).startswith("self.")]
        ctx.record("R15.7", ctx.key(f, "describe_state stores nothing on the object"), f.loc(), not bad,
                   "computed afresh from the dictionaries" if not bad else
                   "describe_state keeps part of its answer on the object: after the items change the remembered part is reported instead of the "
                   "current live/deleted items", bad[:4])



def r15_10(ctx: Ctx) -> None:
    """A look-up by name that may also return deleted items must prefer the live one: names are reused (delete X, create X again),
    and the not-deleted permission rules, restore and the observations all go through these look-ups.  Structurally: the deleted
    mapping is consulted only after the scan of the live mapping is exhausted; a merged mapping lists the live one first."""
    ix = ctx.ix
    ctx.rule("R15.10", "name look-ups with include_deleted consult the live mapping first (the deleted mapping only after the live scan is "
                       "exhausted; in a merged mapping the live entries come first)")
    n = 0
    for spec, live, dead in (("FileSystem.get_folder", "folders", "deleted_folders"), ("Folder.get_file", "files", "deleted_files")):
        f = ix.method(spec)
        g = CFG(f.node)
        lt, dt = f"self.{live}", f"self.{dead}"
        merged = [d for d in ast.walk(f.node) if isinstance(d, ast.Dict) and any(k is None for k in d.keys)
                  and {unparse(v) for k, v in zip(d.keys, d.values) if k is None} >= {lt, dt}]
        for d in merged:
            order = [unparse(v) for k, v in zip(d.keys, d.values) if k is None]
            ok = order.index(lt) < order.index(dt)
            n += 1
            ctx.record("R15.10", ctx.key(f, "merged mapping lists the live items first"), f.loc(d), ok,
                       f"{{{', '.join('**' + o for o in order)}}}" + ("" if ok else ": iteration meets the deleted namesake before the live item"))
        if merged:
            continue
        def mentions(x: CNode, txt: str) -> bool:
            root = x.ast.iter if x.kind == "for" else x.expr_root()
            return root is not None and any(unparse(y) == txt for y in ast.walk(root))

        live_loops = [x for x in g.nodes if x.kind == "for" and unparse(x.ast.iter).startswith(lt)]
        # the live mapping handed to a helper that searches it (`self._find(self.files, name)`) is a consultation too
        live_calls = [x for x in g.nodes if x.kind in ("stmt", "cond") and mentions(x, lt) and not mentions(x, dt)]
        dead_nodes = [x for x in g.nodes if x.kind in ("for", "stmt", "cond") and mentions(x, dt)]
        if not (live_loops or live_calls) or not dead_nodes:
            raise AnalysisError(f"R15.10: {spec} no longer scans self.{live} and self.{dead} in a recognisable way")
        p = g.path_avoiding(dead_nodes, lambda e: bool(e.label and e.label[0] == "iter" and e.label[2] is False and any(e.src is l for l in live_loops)),
                            blocked_nodes={x.id for x in live_calls})
        n += 1
        ctx.record("R15.10", ctx.key(f, "the deleted mapping is consulted only after the live scan is exhausted"), f.loc(dead_nodes[0].ast), p is None,
                   f"self.{dead} is reached only past the exhausted scan of self.{live}" if p is None else
                   f"self.{dead} can be searched before self.{live}: a deleted namesake shadows the live item", path_text(p))
    ctx.floor("R15.10", "name look-ups that may return deleted items", n, 2)


def check(ctx: Ctx) -> None:
    r15_1(ctx)
    r15_2(ctx)
    r15_3(ctx)
    r15_4(ctx)
    r15_5(ctx)
    r15_6(ctx)
    r15_7(ctx)
    # "deleted items are unavailable to further actions": a name that is re-used must route to the new object - the insertion /
    # registration pairing of C05 (R5.6) applies here
    from . import c05
    from ..reqtree import RequestTree
    with ctx.borrowed({"R5.6": "R15.8"}):
        c05.r5_6(ctx, RequestTree(ctx.ix))
    # "deleted items are unavailable to further actions" is enforced by the exists / not-deleted permission rules: C11's R11.4
    from . import c11
    with ctx.borrowed({"R11.4": "R15.9"}):
        c11.r11_4(ctx)
    r15_10(ctx)
