"""C16 - logins need valid credentials; remote commands need a live session (DESIGN.md section 3, C16)."""
from __future__ import annotations

import ast
import itertools
from typing import Callable, Dict, List, Optional, Sequence, Set, Tuple

from ..absval import UNKNOWN, Evaluator, walk
from ..astutil import call_name, calls_in, kwarg, skippable_calls, store_targets, unparse, walk_shallow
from ..cfg import CFG, CNode, Edge, LocalDefs, path_text
from ..index import AnalysisError, ClassInfo, FuncInfo, Index
from ..inventory import call_sites, recv_class, stores_to_attr
from ..report import Ctx
from ..types import func_types
from .common import edge_state_set, must_pass, node_calls, nodes_calling

EXPLANATION = (
    "Static analysis (ast, per-function CFG with guard edges, truth tables of guards over finite atom domains, store "
    "and call inventories) of the account/session/terminal code. Decided: R16.1 UserManager.authenticate_user returns "
    "the looked-up user exactly under can-perform-action AND user-exists AND not-disabled AND password-equal (16-row "
    "table); R16.2 in UserSessionManager._login every session creation and every store into local_session / "
    "remote_sessions lies past the can-perform-action edge and the truthy edge of the authenticate_user result, remote "
    "ones also past the not-remote_session_limit_reached edge, the session is built for the authenticated user, "
    "credentials are passed through unchanged by local_login/remote_login, and nobody else creates sessions or writes "
    "the session tables; R16.3 remote_session_limit_reached is len(remote_sessions) >= max_remote_sessions as an order "
    "table and validate_remote_session_uuid is membership in remote_sessions; R16.4 Terminal.receive executes an SSH "
    "command only on the true edge of _check_client_connection(packet connection id), which answers true only when "
    "the session id is live, and creates the server-side connection only for a successful remote_login; R16.5 every "
    "TerminalClientConnection.execute passes the is_active and service-RUNNING tests before touching the terminal, "
    "Terminal.login/send pass the RUNNING test; R16.6 time-out, remote logout, the received disconnect and "
    "Terminal._disconnect remove the session and the terminal connection together, deactivate the popped connection, "
    "and the time-out test is last_active_step + timeout <= timestep with matching local/remote timeout fields, every "
    "inactive session being handed to _timeout_session; R16.7 change_user_password stores the new password only "
    "under can-perform AND user-exists AND current-password-equal, then reaches _logout_user, and _logout_user goes on "
    "to the user's remaining sessions after ending one - each logout call being evaluated unconditionally, not behind a "
    "short circuit such as `done = done or self._logout(..)`; R16.8 disable_user stores disabled=True only past the "
    "not-_is_last_admin edge, _is_last_admin consults the `disabled` flag (directly or through `admins`) and is "
    "`username in admins and len(admins) == 1` over the enabled admins, "
    "and the account flags have no other writer; R16.9 (a) _login returns a session id only past the authenticated edge, (b) every "
    "path through pre_timestep reaches the hand-over of inactive sessions to _timeout_session, (c) = C12's R12.5 applied here "
    "(software, hence login, acts only while its node is ON). NOT decided: time-out tick counts over histories, behaviour of "
    "stale identifiers across service restarts and node reboots, that the terminal service on the target is running "
    "when a packet arrives (C13's receive-gate rule), and exceptions raised for unknown identifiers (C01/C05)."
)
TECHNIQUE = "static: truth tables of authentication/limit/last-admin guards, CFG must-pass from credential check to session creation and from session validation to command execution, pairing of removals"
ASSUMPTIONS = [
    "sessions are created only through UserSession.create / RemoteUserSession.create or their constructors (inventoried)",
    "no setattr/exec writes to the session tables or account flags (dynamic-feature census)",
    "CFG conditions are side-effect free apart from the calls named in the rules",
]

BASE = "src/primaite/simulator/network/hardware/base.py"


# ------------------------------------------------------------------------------------------------ small normal forms
def _is_none(e: ast.AST) -> bool:
    return isinstance(e, ast.Constant) and e.value is None


def truthy_polarity(expr: ast.AST, is_subj: Callable[[ast.AST], bool]) -> Optional[bool]:
    """True if `expr` holds exactly when the subject is present (truthy / not None), False if exactly when absent."""
    if is_subj(expr):
        return True
    if isinstance(expr, ast.Compare) and len(expr.ops) == 1:
        op, l, r = expr.ops[0], expr.left, expr.comparators[0]
        if (_is_none(r) and is_subj(l)) or (_is_none(l) and is_subj(r)):
            if isinstance(op, (ast.IsNot, ast.NotEq)):
                return True
            if isinstance(op, (ast.Is, ast.Eq)):
                return False
    if isinstance(expr, ast.Call) and isinstance(expr.func, ast.Name) and expr.func.id == "bool" and len(expr.args) == 1 \
            and is_subj(expr.args[0]):
        return True
    return None


def bool_polarity(expr: ast.AST, is_subj: Callable[[ast.AST], bool]) -> Optional[bool]:
    """`S`, `S is True`, `S == True`, `S is False`, `S != True` ... -> polarity of S for which expr holds."""
    if is_subj(expr):
        return True
    if isinstance(expr, ast.Compare) and len(expr.ops) == 1:
        op, l, r = expr.ops[0], expr.left, expr.comparators[0]
        for s, c in ((l, r), (r, l)):
            if is_subj(s) and isinstance(c, ast.Constant) and isinstance(c.value, bool):
                if isinstance(op, (ast.Is, ast.Eq)):
                    return c.value
                if isinstance(op, (ast.IsNot, ast.NotEq)):
                    return not c.value
    return None


def cond_of(e: Edge) -> Optional[Tuple[ast.AST, bool]]:
    if e.label and e.label[0] == "cond":
        return e.label[1], e.label[2]
    return None


def self_call(expr: ast.AST, names: Sequence[str]) -> Optional[ast.Call]:
    if isinstance(expr, ast.Call) and call_name(expr) in names:
        return expr
    return None


def params_of(fn: FuncInfo) -> List[str]:
    a = fn.node.args
    ps = [x.arg for x in list(a.posonlyargs) + list(a.args)]
    if ps and ps[0] in ("self", "cls"):
        ps = ps[1:]
    return ps + [x.arg for x in a.kwonlyargs]


def bind_args(call: ast.Call, callee: FuncInfo) -> Dict[str, ast.AST]:
    """Map the callee's parameter names to the argument expressions of `call` (no *args/**kwargs allowed)."""
    ps = params_of(callee)
    out: Dict[str, ast.AST] = {}
    if any(isinstance(a, ast.Starred) for a in call.args) or any(k.arg is None for k in call.keywords):
        raise AnalysisError(f"call {unparse(call)[:60]} uses */** arguments; cannot bind parameters")
    for i, a in enumerate(call.args):
        if i < len(ps):
            out[ps[i]] = a
    for k in call.keywords:
        out[k.arg] = k.value
    return out


class Defs:
    """LocalDefs plus a dominating-definition lookup for names that are bound more than once."""

    def __init__(self, g: CFG):
        self.g = g
        self.ld = LocalDefs(g.fn)
        self._dom: Optional[Dict[int, Set[int]]] = None

    def _binders(self, name: str) -> List[CNode]:
        out = []
        for n in self.g.nodes:
            if n.kind == "stmt" and isinstance(n.ast, (ast.Assign, ast.AnnAssign)):
                tg = n.ast.targets if isinstance(n.ast, ast.Assign) else [n.ast.target]
                if any(isinstance(t, ast.Name) and t.id == name for t in tg) and getattr(n.ast, "value", None) is not None:
                    out.append(n)
        return out

    def value_at(self, use: CNode, expr: ast.AST, depth: int = 3) -> ast.AST:
        """Resolve a Name used at `use` to the expression it was bound to (single definition, or the nearest
        dominating definition with no other definition in between); other expressions are returned unchanged."""
        cur = expr
        for _ in range(depth):
            if not isinstance(cur, ast.Name):
                break
            s = self.ld.single(cur.id)
            if s and s[0] is not None and s[1] is None:
                cur = s[0]
                continue
            if self._dom is None:
                self._dom = self.g.dominators()
            defs = self._binders(cur.id)
            cands = [d for d in defs if d is not use and d.id in self._dom.get(use.id, set())]
            if not cands:
                break
            best = max(cands, key=lambda d: len(self._dom[d.id]))
            clean = True
            for o in defs:
                if o is best or o is use:
                    continue
                if self.g.path_avoiding([o], lambda e: False, start=best) is not None and \
                        self.g.path_avoiding([use], lambda e: False, start=o, blocked_nodes={best.id}) is not None:
                    clean = False
            if not clean:
                break
            cur = best.ast.value
        return cur


# ------------------------------------------------------------------------------------------------ atom truth tables
Classifier = Callable[[ast.AST], Optional[Tuple[str, bool]]]


class FreeAtom(AnalysisError):
    """A branch condition that is none of the rule's atoms; carries the name under which it joins the truth table."""


def eval_atoms(expr: ast.AST, classify: Classifier, asg: Dict[str, bool], used: Optional[Set[str]] = None) -> bool:
    if isinstance(expr, ast.Constant):
        return bool(expr.value)
    if isinstance(expr, ast.UnaryOp) and isinstance(expr.op, ast.Not):
        return not eval_atoms(expr.operand, classify, asg, used)
    if isinstance(expr, ast.BoolOp):
        if isinstance(expr.op, ast.And):
            for v in expr.values:
                if not eval_atoms(v, classify, asg, used):
                    return False
            return True
        for v in expr.values:
            if eval_atoms(v, classify, asg, used):
                return True
        return False
    if isinstance(expr, ast.IfExp):
        return eval_atoms(expr.body if eval_atoms(expr.test, classify, asg, used) else expr.orelse, classify, asg, used)
    c = classify(expr)
    if c is None:
        # an atom the rule does not know: a *free* atom - the table is built for both of its values (table_rule), so a condition
        # that lets the guarded effect through where a required atom fails is reported whatever the free atom stands for
        free = "?" + unparse(expr)[:70]
        if free not in asg:
            raise FreeAtom(free)
        c = (free, True)
    name, pos = c
    if name not in asg:
        raise AnalysisError(f"atom {name!r} has no value in the truth-table assignment")
    if used is not None:
        used.add(name)
    return asg[name] == pos


def walk_atoms(g: CFG, classify: Classifier, asg: Dict[str, bool]) -> Tuple[str, Optional[CNode], List[CNode], List[str]]:
    """Follow the CFG under a truth assignment of the atoms.  (outcome, return node, visited nodes, trace)."""
    if any(isinstance(n, ast.Try) for n in walk_shallow(g.fn)):
        raise AnalysisError("try/except inside a function analysed as a truth table (exceptional edges are not part of "
                            "the table) - unrecognised idiom")
    cur = g.entry
    visited: List[CNode] = []
    trace: List[str] = []
    for _ in range(4000):
        visited.append(cur)
        if cur.kind == "exit":
            return "fallthrough", None, visited, trace
        if cur.kind == "raise":
            return "raise", None, visited, trace
        succ = g.succ[cur.id]
        if cur.kind == "cond":
            v = eval_atoms(cur.ast, classify, asg)
            nxt = [e for e in succ if e.label and e.label[0] == "cond" and e.label[2] == v]
            if not nxt:
                raise AnalysisError(f"no {v} edge out of condition at line {cur.lineno}")
            trace.append(f"L{cur.lineno}: [{unparse(cur.ast)[:60]}] is {v}")
            cur = nxt[0].dst
            continue
        if cur.kind == "stmt" and isinstance(cur.ast, ast.Return):
            return "return", cur, visited, trace
        if cur.kind == "stmt" and isinstance(cur.ast, ast.Raise):
            return "raise", cur, visited, trace
        if cur.kind == "for":
            raise AnalysisError(f"loop at line {cur.lineno} inside a function analysed as a truth table")
        plain = [e for e in succ if not (e.label and e.label[0] == "exc")]
        if not plain:
            return "fallthrough", None, visited, trace
        cur = plain[0].dst
    raise AnalysisError("atom walk did not terminate")


def all_assignments(atoms: Sequence[str]):
    for vals in itertools.product((False, True), repeat=len(atoms)):
        yield dict(zip(atoms, vals))


def table_rule(ctx: Ctx, rid: str, fn: FuncInfo, g: CFG, classify: Classifier, atoms: Sequence[str],
               hit: Callable[[str, Optional[CNode], List[CNode]], bool], required: Dict[str, bool], what: str) -> None:
    """`hit` (the guarded effect happens) must imply every required atom value; and some row must hit."""
    atoms = list(atoms)
    for _ in range(5):
        rows = []
        try:
            for asg in all_assignments(atoms):
                outcome, node, visited, trace = walk_atoms(g, classify, asg)
                rows.append((asg, hit(outcome, node, visited), trace))
            break
        except FreeAtom as fa:
            name = str(fa)
            if name in atoms:
                raise AnalysisError(f"{rid}: free atom {name} could not be resolved")
            atoms.append(name)
    else:
        raise AnalysisError(f"{rid}: more than four conditions of {fn.short} are unknown to the rule's truth table")
    for a, want in required.items():
        bad = [(asg, tr) for asg, h, tr in rows if h and asg[a] != want]
        ctx.record(rid, ctx.key(fn, f"{what} requires {a}={want}"), fn.loc(), not bad,
                   f"{len(rows)}-row table over {list(atoms)}: {what} happens only in rows with {a}={want}" if not bad else
                   f"{what} happens although {a}={not want}: {bad[0][0]}", bad[0][1] if bad else None)
    full = [h for asg, h, _ in rows if all(asg[a] == w for a, w in required.items())]
    ctx.record(rid, ctx.key(fn, f"{what} happens when all conditions hold"), fn.loc(), any(full),
               f"{what} happens in {sum(full)} of the {len(full)} rows where {required} holds" if any(full) else
               f"{what} never happens, not even when {required} holds")


# ------------------------------------------------------------------------------------------------ shared recognisers
def user_lookup_pred(ld: LocalDefs, username_param: str) -> Callable[[ast.AST], bool]:
    """expr denotes the User object looked up under the username parameter: `self.users.get(p)`, `self.users[p]`,
    or a single-assignment local bound to one of these."""

    def is_user(expr: ast.AST) -> bool:
        x = ld.expand(expr)
        if isinstance(x, ast.Call) and isinstance(x.func, ast.Attribute) and x.func.attr == "get" \
                and unparse(x.func.value) == "self.users" and x.args and isinstance(x.args[0], ast.Name) \
                and x.args[0].id == username_param:
            return True
        if isinstance(x, ast.Subscript) and unparse(x.value) == "self.users" and isinstance(x.slice, ast.Name) \
                and x.slice.id == username_param:
            return True
        return False

    return is_user


def account_classifier(ld: LocalDefs, username_param: str, password_param: Optional[str]) -> Classifier:
    is_user = user_lookup_pred(ld, username_param)

    def classify(expr: ast.AST) -> Optional[Tuple[str, bool]]:
        x = ld.expand(expr) if isinstance(expr, ast.Name) and not is_user(expr) else expr
        if self_call(x, ["_can_perform_action"]) is not None and unparse(x.func) == "self._can_perform_action":
            return "can", True
        if isinstance(x, ast.Call) and call_name(x) == "_is_last_admin" and unparse(x.func) == "self._is_last_admin" \
                and len(x.args) + len(x.keywords) == 1 \
                and unparse((x.args + [k.value for k in x.keywords])[0]) == username_param:
            return "last_admin", True
        tp = truthy_polarity(x, is_user)
        if tp is not None:
            return "exists", tp
        if isinstance(x, ast.Compare) and len(x.ops) == 1 and isinstance(x.ops[0], (ast.In, ast.NotIn)) \
                and unparse(x.left) == username_param and unparse(x.comparators[0]) in ("self.users", "self.users.keys()"):
            return "exists", isinstance(x.ops[0], ast.In)
        bp = bool_polarity(x, lambda s: isinstance(s, ast.Attribute) and s.attr == "disabled" and is_user(s.value))
        if bp is not None:
            return "disabled", bp
        if password_param is not None and isinstance(x, ast.Compare) and len(x.ops) == 1 \
                and isinstance(x.ops[0], (ast.Eq, ast.NotEq)):
            l, r = x.left, x.comparators[0]
            for a, b in ((l, r), (r, l)):
                if isinstance(a, ast.Attribute) and a.attr == "password" and is_user(a.value) \
                        and isinstance(b, ast.Name) and b.id == password_param:
                    return "password_equal", isinstance(x.ops[0], ast.Eq)
        return None

    return classify


def on_every_path_through(g: CFG, s: CNode, marks: List[CNode]) -> Optional[List[str]]:
    """None if every entry->exit path through s also passes one of marks; else a witness."""
    if not marks:
        return ["no such statement in the function"]
    bn = {m.id for m in marks}
    if s.id in bn:
        return None
    pre = g.path_avoiding([s], lambda e: False, blocked_nodes=bn)
    if pre is None:
        return None
    post = g.path_avoiding([g.exit], lambda e: False, start=s, blocked_nodes=bn)
    if post is None:
        return None
    return path_text(pre) + [f"... L{s.lineno} ..."] + path_text(post)


def stmt_stores(n: CNode) -> List[Tuple[ast.AST, Optional[ast.AST], str]]:
    if n.kind == "stmt" and isinstance(n.ast, (ast.Assign, ast.AugAssign, ast.AnnAssign, ast.Delete)):
        return store_targets(n.ast)
    return []


def pops_of(g: CFG, attr: str, base_pred: Callable[[str], bool]) -> List[Tuple[CNode, Optional[ast.AST]]]:
    """Nodes removing a key from `<base>.<attr>`: `.pop(k[, d])`, `del x.attr[k]`; with the key expression."""
    out = []
    for n in g.nodes:
        if n.kind in ("entry", "exit", "raise"):
            continue
        for c in node_calls(n):
            if isinstance(c.func, ast.Attribute) and c.func.attr == "pop" and isinstance(c.func.value, ast.Attribute) \
                    and c.func.value.attr == attr and base_pred(unparse(c.func.value.value)) and c.args:
                out.append((n, c.args[0]))
        for t, _, kind in stmt_stores(n):
            if kind == "del" and isinstance(t, ast.Subscript) and isinstance(t.value, ast.Attribute) \
                    and t.value.attr == attr and base_pred(unparse(t.value.value)):
                out.append((n, t.slice))
    return out


def session_class_of(ix: Index, fn: FuncInfo, call: ast.Call) -> Optional[ClassInfo]:
    """The UserSession subclass a call creates: `K.create(...)` or `K(...)` with K <= UserSession."""
    us = ix.cls("UserSession")
    f = call.func
    tgt = None
    if isinstance(f, ast.Attribute) and f.attr == "create":
        tgt = f.value
    elif isinstance(f, ast.Name):
        tgt = f
    if tgt is None:
        return None
    if isinstance(tgt, ast.Name) and tgt.id == "cls" and fn.cls is not None and ix.is_subclass(fn.cls, us):
        return fn.cls
    c, sh = func_types(ix, fn).expr_type(tgt)
    if c is not None and sh == "class" and ix.is_subclass(c, us):
        return c
    return None


# ------------------------------------------------------------------------------------------------ R16.1
def r16_1(ctx: Ctx) -> None:
    ix = ctx.ix
    ctx.rule("R16.1", "UserManager.authenticate_user returns the user stored under the given name exactly when "
                      "_can_perform_action, the user exists, is not disabled and the stored password equals the given "
                      "one (truth table over the four atoms); otherwise None")
    fn = ix.method("UserManager.authenticate_user")
    ps = params_of(fn)
    if len(ps) < 2:
        raise AnalysisError("R16.1: authenticate_user no longer takes (username, password)")
    g = CFG(fn.node)
    ld = LocalDefs(fn.node)
    classify = account_classifier(ld, ps[0], ps[1])
    is_user = user_lookup_pred(ld, ps[0])

    def hit(outcome: str, node: Optional[CNode], visited: List[CNode]) -> bool:
        if outcome == "fallthrough":
            return False
        if outcome != "return":
            raise AnalysisError("R16.1: authenticate_user raises on some row of the table")
        v = node.ast.value
        if v is None or _is_none(v):
            return False
        if is_user(v):
            return True
        raise AnalysisError(f"R16.1: authenticate_user returns `{unparse(v)[:50]}`, neither None nor the looked-up user")

    table_rule(ctx, "R16.1", fn, g, classify, ["can", "exists", "disabled", "password_equal"], hit,
               {"can": True, "exists": True, "disabled": False, "password_equal": True}, "a non-None return")


# ------------------------------------------------------------------------------------------------ R16.2
def limit_table(expr: ast.AST, ld: Optional[LocalDefs]) -> Optional[Tuple[bool, bool, bool]]:
    """Value of expr for len(remote_sessions) <, =, > max_remote_sessions; None if it is not such a test."""
    out = []
    for n in (0, 1, 2):
        ev = Evaluator({"self.remote_sessions": {i: i for i in range(n)}, "self.max_remote_sessions": 1,
                        "self.remote_session_limit_reached": n >= 1}, ld)
        v = ev.ev(expr)
        if v is UNKNOWN:
            return None
        out.append(bool(v))
    return tuple(out)


def r16_2(ctx: Ctx) -> None:
    ix = ctx.ix
    ctx.rule("R16.2", "UserSessionManager._login: every session creation / store into local_session or remote_sessions "
                      "is past _can_perform_action and the truthy edge of authenticate_user's result; remote ones also "
                      "past the limit-not-reached edge; the session is created for the authenticated user; credentials "
                      "flow unchanged through local_login/remote_login; nobody else creates sessions or fills the tables")
    fn = ix.method("UserSessionManager._login")
    auth_fn = ix.method("UserManager.authenticate_user")
    g = CFG(fn.node)
    ld = LocalDefs(fn.node)
    us, rus = ix.cls("UserSession"), ix.cls("RemoteUserSession")

    def is_auth(expr: ast.AST) -> bool:
        x = ld.expand(expr)
        return isinstance(x, ast.Call) and call_name(x) == "authenticate_user"

    def auth_edge(e: Edge) -> bool:
        c = cond_of(e)
        return c is not None and truthy_polarity(c[0], is_auth) == c[1]

    def can_edge(e: Edge) -> bool:
        c = cond_of(e)
        if c is None:
            return False
        x = ld.expand(c[0])
        return self_call(x, ["_can_perform_action"]) is not None and unparse(x.func) == "self._can_perform_action" and c[1]

    def limit_edge(e: Edge) -> bool:
        c = cond_of(e)
        if c is None:
            return False
        if "remote_session" not in unparse(ld.expand(c[0])):
            return False
        t = limit_table(c[0], ld)
        if t is None:
            return False
        passing = tuple(v == c[1] for v in t)
        return passing == (True, False, False)  # only `fewer than the maximum` continues along this edge

    local_sinks: List[Tuple[CNode, str]] = []
    remote_sinks: List[Tuple[CNode, str]] = []
    create_calls: List[Tuple[CNode, ast.Call, ClassInfo]] = []
    for n in g.nodes:
        if n.kind in ("entry", "exit", "raise"):
            continue
        for c in node_calls(n):
            k = session_class_of(ix, fn, c)
            if k is not None:
                create_calls.append((n, c, k))
                (remote_sinks if ix.is_subclass(k, rus) else local_sinks).append((n, f"{k.short} creation"))
            if isinstance(c.func, ast.Attribute) and c.func.attr in ("update", "setdefault", "__setitem__") \
                    and unparse(c.func.value) == "self.remote_sessions":
                remote_sinks.append((n, "store into self.remote_sessions"))
        for t, v, kind in stmt_stores(n):
            if kind == "del":
                continue
            if isinstance(t, ast.Attribute) and t.attr == "local_session" and unparse(t.value) == "self" and not (
                    v is not None and _is_none(v)):
                local_sinks.append((n, "store self.local_session"))
            if isinstance(t, ast.Subscript) and unparse(t.value) == "self.remote_sessions":
                remote_sinks.append((n, "store into self.remote_sessions"))
            if isinstance(t, ast.Attribute) and t.attr == "remote_sessions" and unparse(t.value) == "self":
                remote_sinks.append((n, "store into self.remote_sessions"))
    ctx.floor("R16.2", "session creations in _login", len(create_calls), 2)
    ctx.floor("R16.2", "stores into the session tables in _login", len(local_sinks) + len(remote_sinks) - len(create_calls), 2)
    if not any(is_auth(c) for n in g.nodes for c in node_calls(n)):
        raise AnalysisError("R16.2: _login no longer calls authenticate_user")
    seen: Set[str] = set()
    for sinks, remote in ((local_sinks, False), (remote_sinks, True)):
        for n, desc in sinks:
            checks = [("authenticated-user edge", auth_edge), ("_can_perform_action edge", can_edge)]
            if remote:
                checks.append(("remote-session-limit-not-reached edge", limit_edge))
            for gname, pred in checks:
                key = ctx.key(fn, f"{desc} past the {gname}")
                if key in seen:
                    key += " (2)"
                seen.add(key)
                w = must_pass(g, [n], pred)
                ctx.record("R16.2", key, fn.loc(n.ast), w is None,
                           f"{desc} is reachable only past the {gname}" if w is None else f"{desc} reachable without the {gname}", w)
    # the session belongs to the authenticated user
    for n, c, k in create_calls:
        u = kwarg(c, "user", 0)
        ok = u is not None and is_auth(u)
        ctx.record("R16.2", ctx.key(fn, f"{k.short} is created for the authenticated user"), fn.loc(n.ast), ok,
                   f"user argument `{unparse(u)[:40]}` is the result of authenticate_user" if ok else
                   f"user argument `{unparse(u)[:40]}` is not the authenticate_user result")
    # credentials are handed through unchanged
    my_params = set(params_of(fn))
    auth_calls = [c for n in g.nodes for c in node_calls(n) if call_name(c) == "authenticate_user"]
    roles = params_of(auth_fn)[:2]
    role_param: Dict[str, str] = {}
    for c in auth_calls:
        b = bind_args(c, auth_fn)
        names = [b.get(r) for r in roles]
        ok = all(isinstance(x, ast.Name) and x.id in my_params for x in names) and len({x.id for x in names}) == 2
        if ok:
            role_param = {names[0].id: "username", names[1].id: "password"}
        ctx.record("R16.2", ctx.key(fn, "authenticate_user receives the caller's username and password"), fn.loc(c), ok,
                   f"authenticate_user({', '.join(f'{r}={unparse(b.get(r))}' for r in roles)})")
    for spec, want_local in (("UserSessionManager.local_login", True), ("UserSessionManager.remote_login", False)):
        f = ix.method(spec)
        calls = [c for c in calls_in(f.node) if call_name(c) == "_login"]
        if len(calls) != 1:
            raise AnalysisError(f"R16.2: {spec} should delegate to _login exactly once")
        b = bind_args(calls[0], fn)
        fps = set(params_of(f))
        ok = bool(role_param)
        for p, role in role_param.items():
            a = b.get(p)
            ok = ok and isinstance(a, ast.Name) and a.id in fps and a.id == role
        loc_arg = b.get("local")
        if loc_arg is None:
            dflt = fn.node.args.defaults
            pnames = params_of(fn)
            loc_val = None
            if "local" in pnames and dflt:
                off = len(pnames) - len(dflt)
                i = pnames.index("local") - off
                if 0 <= i < len(dflt) and isinstance(dflt[i], ast.Constant):
                    loc_val = dflt[i].value
        else:
            loc_val = loc_arg.value if isinstance(loc_arg, ast.Constant) else None
        ok2 = loc_val is want_local
        rets = [n for n in walk_shallow(f.node) if isinstance(n, ast.Return)]
        ok3 = all(r.value is not None and any(c is calls[0] for c in calls_in(r.value)) for r in rets) and bool(rets)
        ctx.record("R16.2", ctx.key(f, "delegates to _login with its own credentials"), f.loc(), ok and ok2 and ok3,
                   f"_login({', '.join(f'{k}={unparse(v)}' for k, v in b.items())}); local={loc_val!r} (want {want_local}); "
                   f"result returned={ok3}")
    # who may create sessions
    n_sites = 0
    for cs in call_sites(ix, ["create", "UserSession", "RemoteUserSession"]):
        if cs.fn is None:
            continue
        k = session_class_of(ix, cs.fn, cs.call)
        if k is None:
            continue
        n_sites += 1
        is_ctor = isinstance(cs.call.func, ast.Name)
        if is_ctor:
            ok = cs.fn.name == "create" and cs.fn.cls is not None and ix.is_subclass(cs.fn.cls, us)
            why = "constructor used inside the class's own create()" if ok else "session constructed outside create()"
        else:
            ok = cs.fn is fn
            why = "session created by _login" if ok else "session created outside _login (no credential check on this path)"
        ctx.record("R16.2", f"{cs.path}::{cs.owner}::creates {k.short} via {unparse(cs.call.func)}", cs.where, ok, why)
    ctx.floor("R16.2", "session creation sites in the repo", n_sites, 4)
    allowed = {"UserSessionManager._login": "creates the session after the credential check",
               "UserSessionManager._logout": "ends the session",
               "UserSessionManager._timeout_session": "ends the session on inactivity"}
    usm = ix.cls("UserSessionManager")
    n_w = 0
    for s in stores_to_attr(ix, ["remote_sessions", "local_session"]):
        rc = recv_class(ix, s.fn, s.recv)
        if rc is not None and not ix.is_subclass(rc, usm):
            continue
        if s.fn is None:
            continue
        n_w += 1
        ok = s.owner in allowed
        ctx.record("R16.2", f"{s.path}::{s.owner}::writes {s.attr} ({s.kind})", s.where, ok,
                   allowed.get(s.owner, "writer of the session tables outside login/logout/time-out"))
    ctx.floor("R16.2", "writers of the session tables", n_w, 6)


# ------------------------------------------------------------------------------------------------ R16.3
def _eval_return(fn: FuncInfo, env: Dict[str, object], what: str) -> bool:
    g = CFG(fn.node)
    ld = LocalDefs(fn.node)
    ev = Evaluator(env, ld)
    outcome, node, trace = walk(g, ev)
    if outcome != "return" or node.ast.value is None:
        raise AnalysisError(f"{what}: cannot follow {fn.short} under {env} ({outcome})")
    v = ev.ev(node.ast.value)
    if v is UNKNOWN:
        raise AnalysisError(f"{what}: cannot evaluate `{unparse(node.ast.value)[:60]}` in {fn.short}")
    return bool(v)


def r16_3(ctx: Ctx) -> None:
    ix = ctx.ix
    ctx.rule("R16.3", "remote_session_limit_reached is len(remote_sessions) >= max_remote_sessions (order table "
                      "<,=,> -> False,True,True); validate_remote_session_uuid is membership in remote_sessions")
    fn = ix.method("UserSessionManager.remote_session_limit_reached")
    got = tuple(_eval_return(fn, {"self.remote_sessions": {i: i for i in range(n)}, "self.max_remote_sessions": 1}, "R16.3")
                for n in (0, 1, 2))
    ctx.record("R16.3", ctx.key(fn, "limit reached iff len(remote_sessions) >= max_remote_sessions"), fn.loc(),
               got == (False, True, True), f"len <,=,> max gives {got}; required (False, True, True)")
    vf = ix.method("UserSessionManager.validate_remote_session_uuid")
    ps = params_of(vf)
    if not ps:
        raise AnalysisError("R16.3: validate_remote_session_uuid takes no session id")
    got2 = (_eval_return(vf, {"self.remote_sessions": {"k": 1}, ps[0]: "k"}, "R16.3"),
            _eval_return(vf, {"self.remote_sessions": {"j": 1}, ps[0]: "k"}, "R16.3"),
            _eval_return(vf, {"self.remote_sessions": {}, ps[0]: "k"}, "R16.3"))
    ctx.record("R16.3", ctx.key(vf, "valid iff the id is a key of remote_sessions"), vf.loc(), got2 == (True, False, False),
               f"id present / other id present / empty table gives {got2}; required (True, False, False)")


# ------------------------------------------------------------------------------------------------ R16.4
def r16_4(ctx: Ctx) -> None:
    ix = ctx.ix
    ctx.rule("R16.4", "Terminal.receive: an SSH command is executed only on the true edge of "
                      "_check_client_connection / validate_remote_session_uuid applied to the packet's connection id; "
                      "_check_client_connection answers true only for a live session id; the server-side connection "
                      "object is created only for a successful remote_login")
    fn = ix.method("Terminal.receive")
    g = CFG(fn.node)
    df = Defs(g)
    ps = params_of(fn)
    if "payload" not in ps:
        raise AnalysisError("R16.4: Terminal.receive no longer has a `payload` parameter")
    CHECKS = ("_check_client_connection", "validate_remote_session_uuid")

    def check_edge(e: Edge) -> bool:
        c = cond_of(e)
        if c is None or not c[1]:
            return False
        x = df.value_at(e.src, c[0])
        if not (isinstance(x, ast.Call) and call_name(x) in CHECKS and len(x.args) + len(x.keywords) == 1):
            return False
        a = (x.args + [k.value for k in x.keywords])[0]
        return isinstance(a, ast.Attribute) and a.attr == "connection_uuid" and unparse(a.value) == "payload"

    sinks = [n for n in g.nodes if n.kind not in ("entry", "exit", "raise") and any(
        call_name(c) in ("execute", "apply_request") and unparse(c.func).startswith("self.") for c in node_calls(n))]
    ctx.floor("R16.4", "command executions in Terminal.receive", len(sinks), 1)
    for n in sinks:
        w = must_pass(g, [n], check_edge)
        ctx.record("R16.4", ctx.key(fn, "command executed only for a validated connection id"), fn.loc(n.ast), w is None,
                   "execute(command) is reachable only on the true edge of the session check on payload.connection_uuid"
                   if w is None else "a command can be executed without the session check", w)
    # the refreshed session is the validated one (activity stamp cannot be put on another session)
    stamps = [n for n in g.nodes if any(isinstance(t, ast.Attribute) and t.attr == "last_active_step" for t, _, _ in stmt_stores(n))]
    for n in stamps:
        w = must_pass(g, [n], check_edge)
        ctx.record("R16.4", ctx.key(fn, "activity stamp only for a validated connection id"), fn.loc(n.ast), w is None,
                   "last_active_step is refreshed only past the session check" if w is None else
                   "a session's activity stamp can be refreshed without the session check", w)
    # server-side connection creation after remote_login
    n_c = 0
    for n in g.nodes:
        for c in node_calls(n):
            if call_name(c) != "_create_remote_connection":
                continue
            cid = kwarg(c, "connection_id", 0)
            src = df.value_at(n, cid) if cid is not None else None
            if not (isinstance(src, ast.Call) and call_name(src) == "remote_login"):
                continue
            n_c += 1

            def login_edge(e: Edge) -> bool:
                cc = cond_of(e)
                if cc is None:
                    return False
                return truthy_polarity(cc[0], lambda s: (lambda v: isinstance(v, ast.Call) and call_name(v) == "remote_login")(
                    df.value_at(e.src, s))) == cc[1]

            w = must_pass(g, [n], login_edge)
            ctx.record("R16.4", ctx.key(fn, "server-side connection only for a successful remote_login"), fn.loc(n.ast),
                       w is None, "_create_remote_connection(connection_id=<remote_login result>) lies past its truthy edge"
                       if w is None else "a connection object can be created although remote_login refused", w)
    ctx.floor("R16.4", "server-side connection creations", n_c, 1)
    # _check_client_connection truth table
    cf = ix.method("Terminal._check_client_connection")
    cps = params_of(cf)
    if not cps:
        raise AnalysisError("R16.4: _check_client_connection takes no connection id")
    cg = CFG(cf.node)
    cld = LocalDefs(cf.node)

    def classify(expr: ast.AST) -> Optional[Tuple[str, bool]]:
        x = cld.expand(expr)
        if isinstance(x, ast.Call) and call_name(x) == "validate_remote_session_uuid" and len(x.args) + len(x.keywords) == 1 \
                and unparse((x.args + [k.value for k in x.keywords])[0]) == cps[0] and "user_session_manager" in unparse(x.func):
            return "session_live", True
        if isinstance(x, ast.Compare) and len(x.ops) == 1 and isinstance(x.ops[0], (ast.In, ast.NotIn)) \
                and unparse(x.left) == cps[0]:
            rhs = unparse(x.comparators[0])
            if rhs in ("self._connections", "self.connections", "self._connections.keys()"):
                return "connection_held", isinstance(x.ops[0], ast.In)
            if rhs.endswith("user_session_manager.remote_sessions"):
                return "session_live", isinstance(x.ops[0], ast.In)
        return None

    rows = []
    for asg in all_assignments(["session_live", "connection_held"]):
        outcome, node, visited, trace = walk_atoms(cg, classify, asg)
        answer = False
        if outcome == "return" and node.ast.value is not None:
            answer = eval_atoms(cld.expand(node.ast.value), classify, asg)  # the returned boolean under the same row
        elif outcome == "raise":
            raise AnalysisError("R16.4: _check_client_connection raises on some row of the table")
        rows.append((asg, answer, trace))
    bad = [(a, t) for a, h, t in rows if h and not a["session_live"]]
    ctx.record("R16.4", ctx.key(cf, "answers true only for a live session id"), cf.loc(), not bad,
               "4-row table over (session_live, connection_held): true only with session_live" if not bad else
               f"answers true although the session id is not live: {bad[0][0]}", bad[0][1] if bad else None)
    some = any(h for a, h, t in rows)
    ctx.record("R16.4", ctx.key(cf, "answers true for a live session with a held connection"), cf.loc(), some,
               "some row of the table answers true" if some else "the check never answers true")


# ------------------------------------------------------------------------------------------------ R16.5
def r16_5(ctx: Ctx, uni: Set[str]) -> None:
    ix = ctx.ix
    ctx.rule("R16.5", "every TerminalClientConnection.execute touches its terminal only past the is_active true edge "
                      "and the parent terminal RUNNING edge; Terminal.login and Terminal.send pass the RUNNING edge")
    base = ix.cls("TerminalClientConnection")
    n_impl = 0
    for f in ix.overrides(base, "execute"):
        if f.is_abstract:
            ctx.ok("R16.5", ctx.key(f, "execute gated"), f.loc(), "abstract stub", trivial=True)
            continue
        g = CFG(f.node)
        ld = LocalDefs(f.node)
        sinks = [n for n in g.nodes if n.kind not in ("entry", "exit", "raise") and any(
            unparse(c.func).startswith("self.parent_terminal.") and ".sys_log." not in unparse(c.func) for c in node_calls(n))]
        if not sinks:
            raise AnalysisError(f"R16.5: {f.short} does not call into its parent terminal - unrecognised shape")
        n_impl += 1

        def active_edge(e: Edge) -> bool:
            c = cond_of(e)
            return c is not None and _true_side(c, ld)

        def running_edge(e: Edge) -> bool:
            es = edge_state_set(e, ["operating_state"], uni, ld)
            return es is not None and es[0] == "self.parent_terminal" and set(es[1]) <= {"RUNNING"}

        for gname, pred in (("is_active edge", active_edge), ("terminal RUNNING edge", running_edge)):
            w = must_pass(g, sinks, pred)
            ctx.record("R16.5", ctx.key(f, f"terminal used only past the {gname}"), f.loc(sinks[0].ast), w is None,
                       f"calls into parent_terminal are reachable only past the {gname}" if w is None else
                       f"the connection can be used without the {gname}", w)
    ctx.floor("R16.5", "concrete execute implementations", n_impl, 2)
    for spec, sink_names, pred_sink in (("Terminal.login", ("_send_remote_login", "_process_local_login"), None),
                                        ("Terminal.send", ("send",), "super().send")):
        f = ix.method(spec)
        g = CFG(f.node)
        ld = LocalDefs(f.node)
        sinks = [n for n in g.nodes if n.kind not in ("entry", "exit", "raise") and any(
            call_name(c) in sink_names and (pred_sink is None or unparse(c.func) == pred_sink) for c in node_calls(n))]
        if not sinks:
            raise AnalysisError(f"R16.5: {spec} has no {sink_names} call")

        def running_self(e: Edge) -> bool:
            es = edge_state_set(e, ["operating_state"], uni, ld)
            return es is not None and es[0] == "self" and set(es[1]) <= {"RUNNING"}

        w = must_pass(g, sinks, running_self)
        ctx.record("R16.5", ctx.key(f, "past the terminal RUNNING edge"), f.loc(sinks[0].ast), w is None,
                   f"{'/'.join(sink_names)} reachable only while the terminal service is RUNNING" if w is None else
                   "reachable while the terminal service is not running", w)
    f = ix.method("Terminal._process_local_login")
    g = CFG(f.node)
    df = Defs(g)
    sinks = nodes_calling(g, ["_create_local_connection"])
    if not sinks:
        raise AnalysisError("R16.5: _process_local_login no longer creates the local connection")

    def local_login_edge(e: Edge) -> bool:
        c = cond_of(e)
        if c is None:
            return False
        return truthy_polarity(c[0], lambda s: (lambda v: isinstance(v, ast.Call) and call_name(v) == "local_login")(
            df.value_at(e.src, s))) == c[1]

    w = must_pass(g, sinks, local_login_edge)
    ctx.record("R16.5", ctx.key(f, "local connection only for a successful local_login"), f.loc(sinks[0].ast), w is None,
               "_create_local_connection lies past the truthy edge of local_login's result" if w is None else
               "a local connection can be created although local_login refused", w)


def _true_side(c: Tuple[ast.AST, bool], ld: LocalDefs) -> bool:
    """The edge establishes is_active == True (and not False)."""
    p = bool_polarity(ld.expand(c[0]), lambda s: unparse(s) == "self.is_active")
    return p is not None and p == c[1]


# ------------------------------------------------------------------------------------------------ R16.6
def _terminal_removals(g: CFG) -> List[Tuple[CNode, Optional[ast.AST]]]:
    out = list(pops_of(g, "_connections", lambda b: "terminal" in b))
    for n in g.nodes:
        for c in node_calls(n):
            if call_name(c) == "_disconnect" and "terminal" in unparse(c.func) and (c.args or c.keywords):
                out.append((n, (c.args + [k.value for k in c.keywords])[0]))
    return out


def _pair(ctx: Ctx, fn: FuncInfo, g: CFG, a: List[Tuple[CNode, Optional[ast.AST]]], b: List[Tuple[CNode, Optional[ast.AST]]],
          a_name: str, b_name: str) -> None:
    for n, key in a:
        w = on_every_path_through(g, n, [x for x, _ in b])
        same = any(unparse(key) == unparse(k2) for _, k2 in b)
        ctx.record("R16.6", ctx.key(fn, f"{a_name} is accompanied by {b_name}"), fn.loc(n.ast), w is None and same,
                   f"every path through {a_name}({unparse(key)}) also performs {b_name} for the same id" if w is None and same else
                   (f"{b_name} is for a different id" if w is None else f"a path performs {a_name} without {b_name}"), w)
    for n, key in b:
        w = on_every_path_through(g, n, [x for x, _ in a])
        ctx.record("R16.6", ctx.key(fn, f"{b_name} is accompanied by {a_name}"), fn.loc(n.ast), w is None,
                   f"every path through {b_name}({unparse(key)}) also performs {a_name}" if w is None else
                   f"a path performs {b_name} without {a_name}", w)


def _timeout_table(expr: ast.AST, ld: LocalDefs, tparam: str) -> Optional[Tuple[Tuple[bool, bool, bool], str, str]]:
    """Order table of a time-out test: value of expr for last_active_step + timeout <, =, > timestep."""
    x = ld.expand(expr)
    last = [n for n in ast.walk(x) if isinstance(n, ast.Attribute) and n.attr == "last_active_step"]
    # operands may sit behind one level of single-assignment locals
    for nm in [n for n in ast.walk(x) if isinstance(n, ast.Name)]:
        d = ld.single(nm.id)
        if d and d[0] is not None and d[1] is None:
            last += [n for n in ast.walk(d[0]) if isinstance(n, ast.Attribute) and n.attr == "last_active_step"]
    if not last:
        return None
    scope = [x] + [ld.single(n.id)[0] for n in ast.walk(x) if isinstance(n, ast.Name) and ld.single(n.id) and ld.single(n.id)[0] is not None]
    touts = [n for s in scope for n in ast.walk(s) if isinstance(n, ast.Attribute) and n.attr.endswith("timeout_steps")]
    if not touts:
        raise AnalysisError(f"time-out test `{unparse(x)[:60]}` does not use a *_timeout_steps field")
    out = []
    for la, to, ts in ((0, 1, 2), (0, 1, 1), (0, 2, 1)):
        env: Dict[str, object] = {tparam: ts, "self.current_timestep": ts}
        for n in last:
            env[unparse(n)] = la
        for n in touts:
            env[unparse(n)] = to
        v = Evaluator(env, ld).ev(expr)
        if v is UNKNOWN:
            raise AnalysisError(f"time-out test `{unparse(x)[:60]}` cannot be evaluated as an order relation")
        out.append(bool(v))
    return tuple(out), unparse(last[0].value), touts[0].attr


def r16_6(ctx: Ctx) -> None:
    ix = ctx.ix
    ctx.rule("R16.6", "time-out, remote logout and the received disconnect remove the session from remote_sessions AND "
                      "the terminal connection; Terminal._disconnect / the user_timeout notice deactivate the popped "
                      "connection and tell the peer; the time-out test is last_active_step + timeout <= timestep with the "
                      "matching timeout field, and every inactive session reaches _timeout_session")
    # (a) _timeout_session
    fn = ix.method("UserSessionManager._timeout_session")
    g = CFG(fn.node)
    a = pops_of(g, "remote_sessions", lambda b: b == "self")
    b = _terminal_removals(g)
    ctx.floor("R16.6", "remote_sessions removals in _timeout_session", len(a), 1)
    _pair(ctx, fn, g, a, b, "remote_sessions.pop", "terminal connection removal")
    clears = [n for n in g.nodes if any(isinstance(t, ast.Attribute) and t.attr == "local_session" and unparse(t.value) == "self"
                                        and v is not None and _is_none(v) for t, v, _ in stmt_stores(n))]
    p = g.path_avoiding([g.exit], lambda e: False, blocked_nodes={n.id for n, _ in a} | {n.id for n in clears})
    ctx.record("R16.6", ctx.key(fn, "every path ends a session"), fn.loc(), p is None,
               "every path clears local_session or pops remote_sessions" if p is None else
               "a path through _timeout_session leaves the session in place", path_text(p))
    # (b) _logout
    fn = ix.method("UserSessionManager._logout")
    g = CFG(fn.node)
    a = pops_of(g, "remote_sessions", lambda b: b == "self")
    b = _terminal_removals(g)
    ctx.floor("R16.6", "remote_sessions removals in _logout", len(a), 1)
    _pair(ctx, fn, g, a, b, "remote_sessions.pop", "terminal connection removal")
    # (c) Terminal.receive: disconnect / user_timeout branches
    fn = ix.method("Terminal.receive")
    g = CFG(fn.node)
    df = Defs(g)
    lo = [(n, (c.args + [k.value for k in c.keywords])[0]) for n in g.nodes for c in node_calls(n)
          if call_name(c) == "remote_logout" and (c.args or c.keywords)]
    dc = [(n, (c.args + [k.value for k in c.keywords])[0]) for n in g.nodes for c in node_calls(n)
          if call_name(c) == "_disconnect" and unparse(c.func) == "self._disconnect" and (c.args or c.keywords)]
    ctx.floor("R16.6", "remote_logout on a received disconnect", len(lo), 1)
    for n, key in lo:
        w = on_every_path_through(g, n, [x for x, _ in dc])
        ctx.record("R16.6", ctx.key(fn, "received disconnect: remote_logout is accompanied by _disconnect"), fn.loc(n.ast),
                   w is None, "session and connection are dropped together" if w is None else
                   "the session is logged out while the connection object stays", w)
    for n, key in dc:
        w = on_every_path_through(g, n, [x for x, _ in lo])
        ctx.record("R16.6", ctx.key(fn, "received disconnect: _disconnect is accompanied by remote_logout"), fn.loc(n.ast),
                   w is None, "connection and session are dropped together" if w is None else
                   "the connection is dropped while the remote session stays live", w)
    pops = pops_of(g, "_connections", lambda b: b == "self")
    ctx.floor("R16.6", "connection removals on user_timeout", len(pops), 1)
    for n, key in pops:
        marks = [m for m in g.nodes if any(isinstance(t, ast.Attribute) and t.attr == "is_active" and isinstance(v, ast.Constant)
                                           and v.value is False for t, v, _ in stmt_stores(m))]
        post = g.path_avoiding([g.exit], lambda e: False, start=n, blocked_nodes={m.id for m in marks})
        ctx.record("R16.6", ctx.key(fn, "user_timeout: popped connection is deactivated"), fn.loc(n.ast), post is None,
                   "is_active = False follows the pop on every path" if post is None else
                   "a timed-out connection object stays active", path_text(post))
    # (d) Terminal._disconnect
    fn = ix.method("Terminal._disconnect")
    g = CFG(fn.node)
    ld = LocalDefs(fn.node)
    pops = pops_of(g, "_connections", lambda b: b == "self")
    ctx.floor("R16.6", "connection removals in _disconnect", len(pops), 1)
    ps = params_of(fn)
    for n, key in pops:
        popped = None
        if isinstance(n.ast, (ast.Assign, ast.AnnAssign)):
            tg = n.ast.targets if isinstance(n.ast, ast.Assign) else [n.ast.target]
            popped = next((t.id for t in tg if isinstance(t, ast.Name)), None)
        ok_key = unparse(key) == ps[0] if ps else False
        marks = [m for m in g.nodes if any(isinstance(t, ast.Attribute) and t.attr == "is_active" and isinstance(v, ast.Constant)
                                           and v.value is False and (popped is None or unparse(t.value) == popped)
                                           for t, v, _ in stmt_stores(m))]

        def absent_edge(e: Edge) -> bool:
            c = cond_of(e)
            if c is None or popped is None:
                return False
            return truthy_polarity(c[0], lambda s: isinstance(s, ast.Name) and s.id == popped) == (not c[1])

        post = g.path_avoiding([g.exit], absent_edge, start=n, blocked_nodes={m.id for m in marks})
        ctx.record("R16.6", ctx.key(fn, "popped connection is deactivated"), fn.loc(n.ast), post is None and ok_key,
                   f"pop({unparse(key)}) is followed by is_active = False unless nothing was popped" if post is None and ok_key
                   else "a disconnected connection object stays active (or another id is popped)", path_text(post))
        # the peer is told
        sends = []
        for m in g.nodes:
            for c in node_calls(m):
                if call_name(c) in ("send_payload_to_session_manager", "send"):
                    pl = kwarg(c, "payload", 0)
                    pl = ld.expand(pl) if pl is not None else None
                    if isinstance(pl, ast.Dict):
                        d = {k.value: v for k, v in zip(pl.keys, pl.values) if isinstance(k, ast.Constant)}
                        if isinstance(d.get("type"), ast.Constant) and d["type"].value == "disconnect" \
                                and d.get("connection_id") is not None and unparse(d["connection_id"]) == unparse(key):
                            sends.append(m)
        remote_edges = [e for e in g.edges() if cond_of(e) and cond_of(e)[1] and isinstance(cond_of(e)[0], ast.Call)
                        and call_name(cond_of(e)[0]) == "isinstance" and "RemoteTerminalConnection" in unparse(cond_of(e)[0])]
        if not remote_edges:
            raise AnalysisError("R16.6: _disconnect no longer distinguishes RemoteTerminalConnection")
        okp = bool(sends)
        wit = None
        for e in remote_edges:
            post = g.path_avoiding([g.exit], lambda x: False, start=e.dst, blocked_nodes={m.id for m in sends})
            if post is not None and e.dst not in sends:
                okp = False
                wit = path_text(post)
        ctx.record("R16.6", ctx.key(fn, "remote peer is sent the disconnect for the same id"), fn.loc(n.ast), okp,
                   "a {'type': 'disconnect', 'connection_id': <id>} payload is sent on every RemoteTerminalConnection path"
                   if okp else "the remote end is not told about the disconnect", wit)
    # (e) pre_timestep time-out tests
    fn = ix.method("UserSessionManager.pre_timestep")
    g = CFG(fn.node)
    ld = LocalDefs(fn.node)
    ps = params_of(fn)
    if not ps:
        raise AnalysisError("R16.6: pre_timestep has no timestep parameter")
    tests: List[Tuple[CNode, bool]] = []  # (cond node, polarity on which the session is timed out)
    for n in g.nodes:
        if n.kind != "cond":
            continue
        t = _timeout_table(n.ast, ld, ps[0])
        if t is None:
            continue
        tab, subj, field = t
        kind = "local" if "local_session" in subj else "remote"
        ok_tab = tab in ((True, True, False), (False, False, True))
        ok_field = field.startswith(kind)
        ctx.record("R16.6", ctx.key(fn, f"{kind} time-out test is last_active_step + timeout <= timestep"), fn.loc(n.ast),
                   ok_tab and ok_field,
                   f"sum <,=,> timestep gives {tab} on `{unparse(n.ast)[:70]}`; timeout field {field}" +
                   ("" if ok_field else f" does not belong to a {kind} session"))
        # polarity on which the test says "timed out": the value it takes when the deadline has clearly passed
        tests.append((n, tab[0]))
    ctx.floor("R16.6", "time-out tests in pre_timestep", len(tests), 2)

    def timed_out_edge(e: Edge) -> bool:
        return any(e.src is n and cond_of(e) is not None and cond_of(e)[1] == pol for n, pol in tests)

    calls_to = nodes_calling(g, ["_timeout_session"])
    if not calls_to:
        raise AnalysisError("R16.6: pre_timestep no longer calls _timeout_session")
    collectors = [n for n in g.nodes if n.kind == "stmt" and any(
        isinstance(c.func, ast.Attribute) and c.func.attr in ("append", "add") and isinstance(c.func.value, ast.Name)
        for c in node_calls(n))]
    direct = [n for n in calls_to if not n.loops]
    for n in collectors + direct:
        w = must_pass(g, [n], timed_out_edge)
        ctx.record("R16.6", ctx.key(fn, f"`{unparse(n.ast)[:50]}` only for a timed-out session"), fn.loc(n.ast), w is None,
                   "reached only on the timed-out edge of a time-out test" if w is None else
                   "a session can be timed out without the inactivity test", w)
    for n in collectors:
        lst = next(c.func.value.id for c in node_calls(n) if isinstance(c.func, ast.Attribute) and c.func.attr in ("append", "add")
                   and isinstance(c.func.value, ast.Name))
        loops = [m for m in g.nodes if m.kind == "for" and unparse(m.ast.iter) == lst and any(
            call_name(c) == "_timeout_session" for b in m.ast.body for c in calls_in(b))
            and not any(isinstance(x, (ast.If, ast.Continue, ast.Break, ast.Return)) for b in m.ast.body for x in ast.walk(b))]
        post = g.path_avoiding([g.exit], lambda e: False, start=n, blocked_nodes={m.id for m in loops})
        ctx.record("R16.6", ctx.key(fn, f"`{unparse(n.ast)[:50]}`: every collected session reaches _timeout_session"), fn.loc(n.ast),
                   post is None and bool(loops),
                   f"an unconditional loop over `{lst}` calls _timeout_session on every path after the collection"
                   if post is None and loops else "a collected inactive session may never be timed out", path_text(post))
    rloops = [m for m in g.nodes if m.kind == "for" and "self.remote_sessions" in unparse(m.ast.iter)]
    okl = bool(rloops) and all(not any(isinstance(x, (ast.Continue, ast.Break, ast.Return)) for b in m.ast.body for x in ast.walk(b))
                               for m in rloops)
    ctx.record("R16.6", ctx.key(fn, "the inactivity scan ranges over all remote sessions"), fn.loc(), okl,
               "loop over self.remote_sessions without break/continue/return" if okl else
               "the scan over the remote sessions can stop early or is missing")


# ------------------------------------------------------------------------------------------------ R16.7
def r16_7(ctx: Ctx) -> None:
    ix = ctx.ix
    ctx.rule("R16.7", "change_user_password stores the new password only under can-perform AND user-exists AND "
                      "current-password-equal, and every such path reaches _logout_user for that user; _logout_user, "
                      "after ending one matching remote session, goes on to the remaining remote sessions and to the "
                      "local session (every session of the user must end), iterating over a snapshot")
    fn = ix.method("UserManager.change_user_password")
    ps = params_of(fn)
    if len(ps) < 3:
        raise AnalysisError("R16.7: change_user_password no longer takes (username, current_password, new_password)")
    g = CFG(fn.node)
    ld = LocalDefs(fn.node)
    is_user = user_lookup_pred(ld, ps[0])
    classify = account_classifier(ld, ps[0], ps[1])
    stores = [n for n in g.nodes if any(isinstance(t, ast.Attribute) and t.attr == "password" and is_user(t.value)
                                        for t, v, k in stmt_stores(n))]
    ctx.floor("R16.7", "password stores in change_user_password", len(stores), 1)
    for n in stores:
        v = next(v for t, v, k in stmt_stores(n) if isinstance(t, ast.Attribute) and t.attr == "password")
        okv = isinstance(v, ast.Name) and v.id == ps[2]
        ctx.record("R16.7", ctx.key(fn, "the stored password is the new_password argument"), fn.loc(n.ast), okv,
                   f"user.password = {unparse(v)}")
    sid = {n.id for n in stores}
    table_rule(ctx, "R16.7", fn, g, classify, ["can", "exists", "password_equal"],
               lambda outcome, node, visited: any(x.id in sid for x in visited),
               {"can": True, "exists": True, "password_equal": True}, "the password store")
    lo = [n for n in g.nodes for c in node_calls(n) if call_name(c) == "_logout_user"]
    for n in stores:
        w = on_every_path_through(g, n, lo)
        ctx.record("R16.7", ctx.key(fn, "a password change reaches _logout_user"), fn.loc(n.ast), w is None,
                   "every path through the password store calls _logout_user" if w is None else
                   "the password can change without the user's sessions being ended", w)
    for n in lo:
        c = next(c for c in node_calls(n) if call_name(c) == "_logout_user")
        a = kwarg(c, "user", 0)
        ok = a is not None and (is_user(a) or unparse(a) == ps[0])
        ctx.record("R16.7", ctx.key(fn, "_logout_user is called for the user whose password changed"), fn.loc(n.ast), ok,
                   f"_logout_user({unparse(a)})")
    # _logout_user
    fn = ix.method("UserSessionManager._logout_user")
    g = CFG(fn.node)
    ld = LocalDefs(fn.node)
    loops = [m for m in g.nodes if m.kind == "for" and any(
        call_name(c) in ("_logout", "remote_logout") for b in m.ast.body for c in calls_in(b))]
    if not loops:
        raise AnalysisError("R16.7: _logout_user has no loop that logs remote sessions out - unrecognised idiom")
    ctx.floor("R16.7", "session-ending loops in _logout_user", len(loops), 1)
    local_nodes = [n for n in g.nodes if n.kind not in ("entry", "exit", "raise") and any(
        call_name(c) == "local_logout" or (call_name(c) == "_logout" and isinstance(kwarg(c, "local", 0), ast.Constant)
                                           and kwarg(c, "local", 0).value is True) for c in node_calls(n))]
    local_tests = [n for n in g.nodes if n.kind == "cond" and "local" in unparse(n.ast) and not n.loops]
    for m in loops:
        it = ld.expand(m.ast.iter)
        if "remote_sessions" not in unparse(it):
            raise AnalysisError(f"R16.7: the loop `for ... in {unparse(m.ast.iter)[:50]}` does not range over remote_sessions")
        acts = [n for n in g.nodes if m.ast in n.loops and any(call_name(c) in ("_logout", "remote_logout") for c in node_calls(n))]
        problems: List[str] = []
        wit: List[str] = []
        for n in acts:
            p = g.path_avoiding([g.exit, g.raise_exit], lambda e: False, start=n, blocked_nodes={m.id})
            if p is not None:
                problems.append("the loop over the remote sessions is left after the first matching session "
                                "(remaining remote sessions of the user stay open)")
                wit = [f"L{n.lineno}: {unparse(n.ast)[:60]}"] + [f"L{e.dst.lineno}: {unparse(e.dst.ast)[:40]}" for e in p
                                                                   if e.dst.kind == "stmt"]
            if local_tests:
                p2 = g.path_avoiding([g.exit], lambda e: False, start=n, blocked_nodes={t.id for t in local_tests})
                if p2 is not None:
                    problems.append("the local session of the user is not examined once a remote session matched")
            elif not local_nodes:
                raise AnalysisError("R16.7: _logout_user has no recognisable local-session branch")
        # the logout itself must be evaluated on every matching iteration: not behind a short circuit such as
        # `done = done or self._logout(...)`, which stops logging out after the first success
        for n in acts + local_nodes:
            r_ = n.expr_root()
            sk = skippable_calls(r_) if r_ is not None else set()
            for c in node_calls(n):
                if call_name(c) in ("_logout", "remote_logout", "local_logout") and id(c) in sk:
                    problems.append(f"`{unparse(c)[:50]}` is evaluated only when what precedes it in the same expression lets it "
                                    "(short circuit): after one successful logout the remaining sessions are skipped")
                    wit = wit or [f"L{n.lineno}: {unparse(n.ast)[:90]}"]
        ctx.record("R16.7", ctx.key(fn, "every session of the user is ended (no exit on the first match)"), fn.loc(m.ast),
                   not problems, "after ending a matching remote session the function continues with the remaining "
                   "sessions and the local session" if not problems else "; ".join(dict.fromkeys(problems)), wit or None)
        if not problems:
            # the loop removes entries from remote_sessions through _logout: it must iterate over a snapshot
            raw = m.ast.iter
            live = isinstance(raw, ast.Attribute) or (isinstance(raw, ast.Call) and isinstance(raw.func, ast.Attribute)
                                                      and raw.func.attr in ("items", "keys", "values")
                                                      and "remote_sessions" in unparse(raw.func.value))
            ctx.record("R16.7", ctx.key(fn, "the loop iterates over a snapshot of remote_sessions"), fn.loc(m.ast), not live,
                       f"iterates `{unparse(raw)[:60]}`" + (" - a live view of a dict that _logout mutates (RuntimeError on the "
                                                          "second iteration)" if live else ""))
        else:
            ctx.ok("R16.7", ctx.key(fn, "the loop iterates over a snapshot of remote_sessions"), fn.loc(m.ast),
                   "not evaluated: the loop never reaches a second iteration after a removal", trivial=True)


# ------------------------------------------------------------------------------------------------ R16.8
def r16_8(ctx: Ctx) -> None:
    ix = ctx.ix
    ctx.rule("R16.8", "disable_user stores disabled=True only past _can_perform_action and the not-_is_last_admin edge; "
                      "_is_last_admin(u) is `u in admins and len(admins) == 1`; `admins` is the enabled administrators; "
                      "the account flags disabled / is_admin / password / users have no other writer")
    fn = ix.method("UserManager.disable_user")
    ps = params_of(fn)
    if not ps:
        raise AnalysisError("R16.8: disable_user takes no username")
    g = CFG(fn.node)
    ld = LocalDefs(fn.node)
    is_user = user_lookup_pred(ld, ps[0])
    classify = account_classifier(ld, ps[0], None)
    stores = [n for n in g.nodes if any(isinstance(t, ast.Attribute) and t.attr == "disabled" and is_user(t.value)
                                        and isinstance(v, ast.Constant) and v.value is True for t, v, k in stmt_stores(n))]
    ctx.floor("R16.8", "disabled=True stores in disable_user", len(stores), 1)
    sid = {n.id for n in stores}
    table_rule(ctx, "R16.8", fn, g, classify, ["can", "exists", "disabled", "last_admin"],
               lambda outcome, node, visited: any(x.id in sid for x in visited),
               {"can": True, "exists": True, "last_admin": False}, "the disabled=True store")
    # _is_last_admin
    la = ix.method("UserManager._is_last_admin")
    lps = params_of(la)
    if not lps:
        raise AnalysisError("R16.8: _is_last_admin takes no username")
    # "enabled" administrators: whatever form the test takes, it has to consult the `disabled` flag (directly or through a
    # property such as `admins`); a count that never looks at it treats a disabled administrator as a remaining one
    def attr_closure(f: FuncInfo, depth: int = 2) -> Set[str]:
        out: Set[str] = set()
        for x in ast.walk(f.node):
            if isinstance(x, ast.Attribute) and isinstance(x.ctx, ast.Load):
                out.add(x.attr)
                if depth > 0 and isinstance(x.value, ast.Name) and x.value.id == "self" and f.cls is not None:
                    h = ix.find_method(f.cls, x.attr)
                    if h is not None and h is not f and not isinstance(h.node, ast.Lambda):
                        out |= attr_closure(h, depth - 1)
        return out

    reads = attr_closure(la)
    if "disabled" not in reads:
        ctx.fail("R16.8", ctx.key(la, "true iff the user is the only enabled admin"), la.loc(),
                 f"_is_last_admin never consults `disabled` (it reads {sorted(reads & {'users', 'admins', 'is_admin', 'disabled'})}): a disabled "
                 "administrator still counts as a remaining one, so the last *enabled* administrator can be disabled")
    else:
        cases = (({}, False), ({"u": 1}, True), ({"v": 1}, False), ({"u": 1, "v": 1}, False), ({"v": 1, "w": 1}, False))
        got = tuple(_eval_return(la, {"self.admins": d, lps[0]: "u"}, "R16.8") for d, _ in cases)
        want = tuple(w for _, w in cases)
        ctx.record("R16.8", ctx.key(la, "true iff the user is the only enabled admin"), la.loc(), got == want,
                   f"admins = {{}}, {{u}}, {{v}}, {{u,v}}, {{v,w}} gives {got}; required {want}")
    # admins = enabled administrators
    ad = ix.method("UserManager.admins")
    rets = [n for n in walk_shallow(ad.node) if isinstance(n, ast.Return)]
    if len(rets) != 1 or not isinstance(rets[0].value, ast.DictComp) or len(rets[0].value.generators) != 1:
        raise AnalysisError("R16.8: UserManager.admins is no longer a single dict comprehension")
    gen = rets[0].value.generators[0]
    if "self.users" not in unparse(gen.iter):
        raise AnalysisError("R16.8: UserManager.admins does not range over self.users")
    tnames = [n.id for n in ast.walk(gen.target) if isinstance(n, ast.Name)]

    def cl(expr: ast.AST) -> Optional[Tuple[str, bool]]:
        for attr in ("is_admin", "disabled"):
            p = bool_polarity(expr, lambda s: isinstance(s, ast.Attribute) and s.attr == attr and isinstance(s.value, ast.Name)
                              and s.value.id in tnames)
            if p is not None:
                return attr, p
        return None

    tab = {}
    for asg in all_assignments(["is_admin", "disabled"]):
        tab[(asg["is_admin"], asg["disabled"])] = all(eval_atoms(c, cl, asg) for c in gen.ifs)
    want_tab = {(a, d): (a and not d) for a in (False, True) for d in (False, True)}
    ctx.record("R16.8", ctx.key(ad, "admins = users with is_admin and not disabled"), ad.loc(), tab == want_tab,
               f"membership table over (is_admin, disabled): {tab}")
    # who may write the account flags
    user = ix.cls("User")
    um = ix.cls("UserManager")
    allowed = {
        ("disabled", "UserManager.disable_user"): "guarded by the last-admin test (above)",
        ("disabled", "UserManager.enable_user"): "re-enables an account (stores False)",
        ("password", "UserManager.change_user_password"): "guarded by the current-password test (R16.7)",
        ("users", "UserManager.add_user"): "adds an account",
    }
    n_w = 0
    for s in stores_to_attr(ix, ["disabled", "is_admin", "password", "users"]):
        rc = recv_class(ix, s.fn, s.recv)
        if s.attr == "users":
            if rc is None or not ix.is_subclass(rc, um):
                continue
        elif rc is None:
            if s.path != BASE:
                continue
        elif not ix.is_subclass(rc, user):
            continue
        if s.fn is None:
            continue
        n_w += 1
        ok = (s.attr, s.owner) in allowed
        if ok and s.attr == "disabled" and s.owner == "UserManager.enable_user":
            ok = isinstance(s.value, ast.Constant) and s.value.value is False
        ctx.record("R16.8", f"{s.path}::{s.owner}::writes {'UserManager' if s.attr == 'users' else 'User'}.{s.attr} ({s.kind})", s.where, ok,
                   allowed.get((s.attr, s.owner), "account flag written outside the guarded UserManager methods"))
    ctx.floor("R16.8", "writers of the account flags", n_w, 4)


def r16_9(ctx: Ctx) -> None:
    """Three more necessary conditions found by the third seeding round:
    (a) _login hands out a session id only past the authentication: every `return` of something other than None is dominated by the
        truthy edge of authenticate_user's result (an early return of the existing local session on a name match alone lets a wrong
        password in);
    (b) the inactivity check is unconditional: every path through UserSessionManager.pre_timestep reaches the loop that hands
        inactive sessions to _timeout_session (an early return while the service is paused lets sessions outlive their time-out);
    (c) 'on a powered-on node': C12's rule that IOSoftware._can_perform_action refuses unless the node is ON (R12.5), applied here."""
    ix = ctx.ix
    ctx.rule("R16.9", "(a) _login returns a session id only past the authenticated edge; (b) pre_timestep always reaches the time-out "
                      "hand-over; (c) = C12 R12.5 (software acts only while its node is ON)")
    fn = ix.method("UserSessionManager._login")
    g = CFG(fn.node)
    ld = LocalDefs(fn.node)

    def auth_edge(e: Edge) -> bool:
        c = cond_of(e)
        if c is None:
            return False
        return truthy_polarity(c[0], lambda x: isinstance(ld.expand(x), ast.Call) and call_name(ld.expand(x)) == "authenticate_user") == c[1]

    rets = [n for n in g.nodes if n.kind == "stmt" and isinstance(n.ast, ast.Return) and n.ast.value is not None
            and not (isinstance(n.ast.value, ast.Constant) and n.ast.value.value is None)]
    if not rets:
        raise AnalysisError("R16.9: _login has no return of a session id")
    for r in rets:
        p = g.path_avoiding([r], auth_edge)
        ctx.record("R16.9", ctx.key(fn, f"`{unparse(r.ast)[:50]}` only for an authenticated user"), fn.loc(r.ast), p is None,
                   "reached only past the truthy edge of authenticate_user(username, password)" if p is None else
                   "a session id is returned on a path that never authenticated the caller: a login with a wrong password (or for a disabled "
                   "account) succeeds", path_text(p))
    pt = ix.method("UserSessionManager.pre_timestep")
    gp = CFG(pt.node)
    hand = [n for n in gp.nodes if any(call_name(c) == "_timeout_session" for c in node_calls(n))]
    loops = [n for n in gp.nodes if n.kind == "for" and any(h for h in hand if n.ast in h.loops)]
    if not hand or not loops:
        raise AnalysisError("R16.9: the hand-over of inactive sessions to _timeout_session was not found in pre_timestep")
    p = gp.path_avoiding([gp.exit], lambda e: False, blocked_nodes={n.id for n in loops})
    ctx.record("R16.9", ctx.key(pt, "every tick examines the sessions for inactivity"), pt.loc(), p is None,
               "every path through pre_timestep reaches the time-out hand-over loop" if p is None else
               "pre_timestep can return before the inactivity check: while that condition lasts sessions never time out", path_text(p))
    from . import c12
    uni = set(ix.enum_members(ix.cls("NodeOperatingState")))
    with ctx.borrowed({"R12.1": "R16.9", "R12.5": "R16.9"}):
        flows = c12.r12_1(ctx, uni)
        c12.r12_5(ctx, uni, flows)



def check(ctx: Ctx) -> None:
    uni = set(ctx.ix.enum_members(ctx.ix.cls("ServiceOperatingState")))
    if "RUNNING" not in uni:
        raise AnalysisError(f"ServiceOperatingState members changed: {sorted(uni)}")
    r16_1(ctx)
    r16_2(ctx)
    r16_3(ctx)
    r16_4(ctx)
    r16_5(ctx, uni)
    r16_6(ctx)
    r16_7(ctx)
    r16_8(ctx)
    r16_9(ctx)
    ctx.note("not decided here: Terminal.receive has no running/_can_perform_action test of its own (C13 receive gates); "
             "remote_logout with an unknown id and a time-out of a remote session that has no terminal connection raise "
             "KeyError (totality, C01/C05)")
