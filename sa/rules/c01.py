"""C01 - stepping/resetting is total and keeps the episode contract."""
from __future__ import annotations

import ast
from typing import Dict, List, Optional, Sequence, Set, Tuple

from ..absval import UNKNOWN, Evaluator, walk
from ..astutil import call_name, calls_in, kwarg, unparse, walk_shallow
from ..cfg import CFG, CNode, LocalDefs, path_text
from ..index import AnalysisError, ClassInfo, FuncInfo
from ..inventory import call_sites, stores_to_attr
from ..inventory import only_called_from
from ..report import Ctx
from ..reqtree import RequestTree
from ..shapes import ShapeAnalyser
from .common import node_calls, nodes_calling

EXPLANATION = (
    "Static analysis of the episode pipeline and of the error discipline around it. Decided: R1.1 in "
    "PrimaiteGymEnv.step and PrimaiteGame.step the stages store_action < pre_timestep < apply_agent_actions < "
    "advance_timestep < get_sim_state < update_agents < _get_obs each occur exactly once on every path and in that "
    "order (dominators on the CFG); advance_timestep adds the constant 1 to step_counter exactly once and nothing else "
    "writes step_counter; R1.2 step returns a 5-tuple with terminated=False and truncated=calculate_truncated() taken "
    "after the tick, and calculate_truncated is true exactly when step_counter >= max_episode_length (truth table "
    "over the three order cases); R1.3 apply_agent_actions records exactly one AgentHistoryItem per agent per step "
    "(no skipped iteration, single writer of `history`); R1.4 reset increments the episode counter, rebuilds the game "
    "from the scheduler's config on every path, re-seeds first when a seed is given, then setup_for_episode and "
    "update_agents; R1.5 every function installed as a request handler returns a RequestResponse on every path and "
    "every RequestResponse.from_bool(e) receives a bool on every path of every class-hierarchy target of e (a None or "
    "a non-bool makes from_bool return None and the next history record raises inside step); R1.6 every override of a "
    "method the pipeline calls polymorphically accepts the arguments of the pipeline's call; R1.7 no `raise` in the "
    "pipeline core and no `d.get(k).attr` dereference on a registry from which entries can be removed at run time; R1.8 every "
    "explicit raise reachable in the resolved call graph (depth 4) from a request handler is triaged in a frozen table "
    "(guarded on that route, or reported) - a new one is a violation (may-analysis: reachable, not necessarily raised); "
    "R1.9 use-then-check: no local is dereferenced on every path before the function's own None/truthiness test of it; "
    "R1.10 in the resolved call closure (depth 4) of the request handlers and of the per-step hooks (apply_timestep / "
    "pre_timestep), a single-argument `table.pop(key)` whose key is a string handed in by the caller, or whose table belongs "
    "to another component (self.parent.x.t / self.software_manager.x.t), is dominated by a membership test of that same "
    "table (`k in t`, `t.get(k)`, a local bound to it, a helper predicate) or listed in a triage table with its invariant; "
    "R1.11 two contradiction rules: on the edge of a `k >= len(T)` test T[k] is not read before k is re-bound, and no loop over a "
    "live view of self.T reaches (two calls deep) a removal from / insertion into self.T; R1.12 the values of RequestResponse "
    "`data` dictionaries are JSON-serialisable by static type (no raw IPv4Address / set / datetime / Path) because the action log "
    "written by reset()/close() json-dumps every response; R1.13 a division or modulo by `len(X)` is dominated by a non-emptiness "
    "test of that same X, and C11's R11.4 (each permission rule computes its predicate for every input, including 'not found') "
    "applied here. "
    "R1.14/R1.15 = C02's R2.2/R2.3 (an observation that leaves its declared space, or a state-keyed look-up without default, raises inside step) applied here. "
    "R1.14/R1.15 = C02's R2.2/R2.3 (an observation that leaves its declared space, or a state-keyed look-up without default, raises inside step) applied here. "
    "NOT decided: that no input whatsoever makes a library call raise (KeyError/IndexError/validation errors on "
    "run-time values) and finiteness of rewards as numbers."
)
TECHNIQUE = "static: CFG dominators/exactly-once counts on the step pipeline, return-shape analysis of request handlers over the class hierarchy, signature agreement of overrides, guarded-pop check in the request/timestep call closure"
ASSUMPTIONS = ["request handlers are only the functions passed as RequestType(func=...) at the add_request sites",
               "class-hierarchy analysis over-approximates dispatch; unresolved callees are reported as unknown, not as failures"]

ENV_STAGES = ["store_action", "pre_timestep", "apply_agent_actions", "advance_timestep", "get_sim_state", "update_agents", "_get_obs"]
GAME_STAGES = ["pre_timestep", "apply_agent_actions", "advance_timestep", "update_agents"]


def _stage_nodes(g: CFG, name: str) -> List[CNode]:
    return nodes_calling(g, [name])


def _check_order(ctx: Ctx, fn: FuncInfo, stages: Sequence[str], exactly_once: Sequence[str]) -> None:
    g = CFG(fn.node)
    dom = g.dominators()
    prev: Optional[List[CNode]] = None
    prev_name = None
    for st in stages:
        ns = _stage_nodes(g, st)
        if not ns:
            ctx.fail("R1.1", ctx.key(fn, f"stage {st}"), fn.loc(), f"the step pipeline no longer calls {st}()")
            prev, prev_name = None, st
            continue
        if st in exactly_once:
            lo, hi = g.count_range(lambda n, ids={x.id for x in ns}: n.id in ids)
            ctx.record("R1.1", ctx.key(fn, f"{st} exactly once"), fn.loc(ns[0].ast), (lo, hi) == (1, 1),
                       f"{st}() is called between {lo} and {hi} times on a path through {fn.short}")
        if prev:
            # every occurrence of this stage is dominated by some occurrence of the previous stage
            last = ns[-1] if st != "get_sim_state" else ns[-1]
            ok = any(p.id in dom.get(last.id, set()) for p in prev)
            ctx.record("R1.1", ctx.key(fn, f"{prev_name} precedes {st}"), fn.loc(last.ast), ok,
                       f"{prev_name}() dominates {st}()" if ok else f"{st}() can run before {prev_name}()")
        prev, prev_name = ns, st


def r1_1(ctx: Ctx) -> None:
    ix = ctx.ix
    ctx.rule("R1.1", "pipeline stages occur once, in order; the tick adds exactly 1 to step_counter; single writer")
    env_step = ix.method("PrimaiteGymEnv.step")
    _check_order(ctx, env_step, ENV_STAGES, ENV_STAGES[:4] + ["update_agents"])
    game_step = ix.method("PrimaiteGame.step")
    _check_order(ctx, game_step, GAME_STAGES, GAME_STAGES)
    adv = ix.method("PrimaiteGame.advance_timestep")
    g = CFG(adv.node)
    incs = [n for n in g.nodes if n.kind == "stmt" and isinstance(n.ast, ast.AugAssign) and unparse(n.ast.target) == "self.step_counter"]
    others = [n for n in g.nodes if n.kind == "stmt" and isinstance(n.ast, ast.Assign) and any(unparse(t) == "self.step_counter" for t in n.ast.targets)]
    ok = len(incs) == 1 and not others and isinstance(incs[0].ast.op, ast.Add) and isinstance(incs[0].ast.value, ast.Constant) and incs[0].ast.value.value == 1
    lo, hi = g.count_range(lambda n: n in incs)
    ctx.record("R1.1", ctx.key(adv, "step_counter += 1 exactly once"), adv.loc(), ok and (lo, hi) == (1, 1),
               f"increments: {[unparse(n.ast) for n in incs + others]}, executed {lo}..{hi} times per call")
    at = _stage_nodes(g, "apply_timestep")
    ok = bool(at) and all(any(i.id in g.dominators().get(a.id, set()) for i in incs) for a in at) and all(
        "self.step_counter" in unparse(c) for a in at for c in node_calls(a) if call_name(c) == "apply_timestep")
    ctx.record("R1.1", ctx.key(adv, "simulation ticks once with the new step number"), adv.loc(), ok,
               "simulation.apply_timestep(self.step_counter) follows the increment")
    pre = ix.method("PrimaiteGame.pre_timestep")
    okp = any(call_name(c) == "pre_timestep" and "self.step_counter" in unparse(c) for c in calls_in(pre.node))
    ctx.record("R1.1", ctx.key(pre, "pre_timestep forwards to the simulation"), pre.loc(), okp, "simulation.pre_timestep(self.step_counter)")
    allowed = {"PrimaiteGame.__init__", "PrimaiteGame.advance_timestep"}
    for s in stores_to_attr(ix, ["step_counter"]):
        ok = s.owner in allowed or bool(only_called_from(ix, s.fn, allowed))
        ctx.record("R1.1", f"{s.path}::{s.owner}::store step_counter", s.where, ok,
                   "episode clock is written only by the constructor (0) and the tick" if ok else "extra writer of the episode clock")
    init = ix.method("PrimaiteGame.__init__")
    z = [n for n in ast.walk(init.node) if isinstance(n, (ast.Assign, ast.AnnAssign)) and "step_counter" in unparse(getattr(n, "target", None) or n.targets[0])]
    ok0 = bool(z) and all(isinstance(n.value, ast.Constant) and n.value.value == 0 for n in z)
    ctx.record("R1.1", ctx.key(init, "a new game starts at tick 0"), init.loc(), ok0, "step_counter initialised to 0")


def r1_2(ctx: Ctx) -> None:
    ix = ctx.ix
    ctx.rule("R1.2", "step returns (obs, reward, False, calculate_truncated() after the tick, info); truncated <=> "
                     "step_counter >= max_episode_length")
    fn = ix.method("PrimaiteGymEnv.step")
    g = CFG(fn.node)
    ld = LocalDefs(fn.node)
    rets = [n for n in g.nodes if n.kind == "stmt" and isinstance(n.ast, ast.Return)]
    if g.falls_through or not rets:
        ctx.fail("R1.2", ctx.key(fn, "returns a 5-tuple"), fn.loc(), "step can fall off the end without returning")
    adv = _stage_nodes(g, "advance_timestep")
    dom = g.dominators()
    for r in rets:
        v = r.ast.value
        ok5 = isinstance(v, ast.Tuple) and len(v.elts) == 5
        ctx.record("R1.2", ctx.key(fn, "returns a 5-tuple"), fn.loc(r.ast), ok5, f"return {unparse(v)[:80]}")
        if not ok5:
            continue
        term = ld.expand(v.elts[2])
        ctx.record("R1.2", ctx.key(fn, "terminated is False"), fn.loc(r.ast), isinstance(term, ast.Constant) and term.value is False,
                   f"third element is {unparse(term)}")
        trunc = ld.expand(v.elts[3])
        okt = isinstance(trunc, ast.Call) and call_name(trunc) == "calculate_truncated"
        # evaluated after the tick
        tn = [n for n in g.nodes if any(call_name(c) == "calculate_truncated" for c in node_calls(n))]
        after = bool(tn) and bool(adv) and all(any(a.id in dom.get(t.id, set()) for a in adv) for t in tn)
        ctx.record("R1.2", ctx.key(fn, "truncated = calculate_truncated() after the tick"), fn.loc(r.ast), okt and after,
                   f"fourth element is {unparse(trunc)[:60]}; computed after advance_timestep: {after}")
        obs = ld.expand(v.elts[0])
        ctx.record("R1.2", ctx.key(fn, "observation comes from _get_obs"), fn.loc(r.ast),
                   isinstance(obs, ast.Call) and call_name(obs) == "_get_obs", f"first element is {unparse(obs)[:60]}")
        rew = ld.expand(v.elts[1])
        ctx.record("R1.2", ctx.key(fn, "reward is the agent's current_reward"), fn.loc(r.ast),
                   unparse(rew).endswith("reward_function.current_reward"), f"second element is {unparse(rew)[:70]}")
    ct = ix.method("PrimaiteGame.calculate_truncated")
    gc = CFG(ct.node)
    bad = []
    for a, b in ((3, 5), (5, 5), (7, 5)):
        ev = Evaluator({"self.step_counter": a, "self.options.max_episode_length": b}, LocalDefs(ct.node))
        out, node, tr = walk(gc, ev)
        if out == "unknown":
            raise AnalysisError(f"R1.2: cannot evaluate {unparse(node.ast)[:60]} in calculate_truncated")
        val = ev.ev(node.ast.value) if out == "return" else None
        if val is UNKNOWN:
            raise AnalysisError("R1.2: calculate_truncated returns a non-evaluable expression")
        if val is not (a >= b):
            bad.append(f"steps {'<' if a < b else '=' if a == b else '>'} max: returns {val!r}")
    ctx.record("R1.2", ctx.key(ct, "truncated <=> step_counter >= max_episode_length"), ct.loc(), not bad,
               "order table (<, =, >) -> (False, True, True)" if not bad else "truncation test differs from the contract", bad)


def r1_3(ctx: Ctx) -> None:
    ix = ctx.ix
    ctx.rule("R1.3", "exactly one action/response record per agent per step; single writer of `history`")
    fn = ix.method("PrimaiteGame.apply_agent_actions")
    g = CFG(fn.node)
    loops = [n for n in g.nodes if n.kind == "for" and unparse(n.ast.iter).startswith("self.agents")]
    if not loops:
        raise AnalysisError("R1.3: loop over self.agents not found in apply_agent_actions")
    loop = loops[0]
    ok_iter = unparse(loop.ast.iter) in ("self.agents.items()", "self.agents.values()")
    ctx.record("R1.3", ctx.key(fn, "loop ranges over all agents"), fn.loc(loop.ast), ok_iter, f"iterates {unparse(loop.ast.iter)}")
    for name in ("get_action", "apply_request", "process_action_response"):
        marks = [n for n in g.nodes if loop.ast in n.loops and any(call_name(c) == name for c in node_calls(n))]
        it = [e for e in g.succ[loop.id] if e.label and e.label[0] == "iter" and e.label[2]]
        p = g.path_avoiding([loop], lambda e: False, start=it[0].dst, blocked_nodes={m.id for m in marks}) if it and marks else []
        if it and marks and it[0].dst.id in {m.id for m in marks}:
            p = None
        twice = len(marks) > 1
        ok = bool(marks) and p is None and not twice
        ctx.record("R1.3", ctx.key(fn, f"{name} once per agent"), fn.loc(loop.ast), ok,
                   f"every iteration passes exactly one {name}() call" if ok else f"an iteration can skip or repeat {name}()", path_text(p) if p else None)
    # the response handed to the record is the simulator's answer to this agent's request
    par = ix.method("AbstractAgent.process_action_response")
    gp = CFG(par.node)
    apps = [n for n in gp.nodes if any(call_name(c) == "append" and unparse(c.func.value) == "self.history" for c in node_calls(n))]
    lo, hi = gp.count_range(lambda n: n in apps)
    ok = (lo, hi) == (1, 1) and all("AgentHistoryItem" in unparse(a.ast) for a in apps)
    ctx.record("R1.3", ctx.key(par, "appends exactly one AgentHistoryItem"), par.loc(), ok, f"history.append executed {lo}..{hi} times per call")
    if apps:
        call = [c for c in node_calls(apps[0]) if call_name(c) == "AgentHistoryItem"]
        if call:
            kws = {k.arg: unparse(k.value) for k in call[0].keywords}
            okk = all(kws.get(k) == k for k in ("timestep", "action", "parameters", "request", "response"))
            ctx.record("R1.3", ctx.key(par, "record carries this step's action, request and response"), par.loc(), okk, f"fields {kws}")
    n = 0
    for s in stores_to_attr(ix, ["history"]):
        if s.fn is None or s.fn.cls is None:
            continue
        owner_cls = s.fn.cls
        if not ix.is_subclass(owner_cls, ix.cls("AbstractAgent")) and "agent" not in unparse(s.recv or ast.Name(id="")).lower():
            continue
        n += 1
        ok = s.owner == "AbstractAgent.process_action_response" or bool(only_called_from(ix, s.fn, ["AbstractAgent.process_action_response"]))
        ctx.record("R1.3", f"{s.path}::{s.owner}::{s.kind} history", s.where, ok,
                   "the only writer of an agent's history" if ok else "second writer of an agent's history")
    ctx.floor("R1.3", "writers of history", n, 1)


def r1_4(ctx: Ctx) -> None:
    ix = ctx.ix
    ctx.rule("R1.4", "reset: reseed (if seed given) < rebuild game from the scheduler's config < setup_for_episode < "
                     "get_sim_state < update_agents < _get_obs; episode counter advances once")
    fn = ix.method("PrimaiteGymEnv.reset")
    g = CFG(fn.node)
    dom = g.dominators()
    rebuild = [n for n in g.nodes if n.kind == "stmt" and isinstance(n.ast, (ast.Assign, ast.AnnAssign)) and
               unparse(n.ast.targets[0] if isinstance(n.ast, ast.Assign) else n.ast.target) == "self.game"]
    lo, hi = g.count_range(lambda n: n in rebuild)
    ok = (lo, hi) == (1, 1)
    ctx.record("R1.4", ctx.key(fn, "game rebound exactly once"), fn.loc(), ok, f"self.game assigned {lo}..{hi} times on a path")
    if not rebuild:
        return
    rb = rebuild[0]
    v = rb.ast.value
    okv = isinstance(v, ast.Call) and unparse(v.func) == "PrimaiteGame.from_config"
    arg = (kwarg(v, "cfg", 0) if isinstance(v, ast.Call) else None)
    arg = LocalDefs(fn.node).expand(arg) if arg is not None else None
    oka = isinstance(arg, ast.Call) and unparse(arg.func) == "self.episode_scheduler" and "self.episode_counter" in unparse(arg)
    ctx.record("R1.4", ctx.key(fn, "new game built by PrimaiteGame.from_config(scheduler(episode))"), fn.loc(rb.ast), okv and oka,
               f"self.game = {unparse(v)[:90]}")
    incs = [n for n in g.nodes if n.kind == "stmt" and isinstance(n.ast, ast.AugAssign) and unparse(n.ast.target) == "self.episode_counter"]
    lo, hi = g.count_range(lambda n: n in incs)
    okc = (lo, hi) == (1, 1) and all(i.id in dom[rb.id] for i in incs)
    ctx.record("R1.4", ctx.key(fn, "episode counter advances once, before the rebuild"), fn.loc(), okc, f"increment executed {lo}..{hi} times")
    order = ["setup_for_episode", "get_sim_state", "update_agents", "_get_obs"]
    prev = [rb]
    pn = "rebuild"
    for st in order:
        ns = _stage_nodes(g, st)
        ok = bool(ns) and all(any(p.id in dom.get(x.id, set()) for p in prev) for x in ns)
        lo, hi = g.count_range(lambda n, ids={x.id for x in ns}: n.id in ids) if ns else (0, 0)
        ctx.record("R1.4", ctx.key(fn, f"{pn} precedes {st}"), fn.loc(ns[0].ast) if ns else fn.loc(), ok and lo >= 1,
                   f"{st}() runs on every path ({lo}..{hi} times) after {pn}")
        prev, pn = ns or prev, st
    seeds = _stage_nodes(g, "set_random_seed")
    if seeds:
        p = g.path_avoiding([rb], lambda e: False, blocked_nodes={s.id for s in seeds})
        # the only way around the reseed must be the `seed is None` edge
        p2 = g.path_avoiding([rb], lambda e: bool(e.label and e.label[0] == "cond" and unparse(e.label[1]) in ("seed is not None", "seed is None")
                                                 and e.label[2] == (unparse(e.label[1]) == "seed is None")),
                             blocked_nodes={s.id for s in seeds})
        ok = p2 is None
        ctx.record("R1.4", ctx.key(fn, "reseed precedes the rebuild when a seed is given"), fn.loc(seeds[0].ast), ok,
                   "the rebuild is reached without reseeding only when seed is None" if ok else "a given seed can be ignored", path_text(p2))
    else:
        ctx.fail("R1.4", ctx.key(fn, "reseed precedes the rebuild when a seed is given"), fn.loc(), "reset no longer calls set_random_seed")
    rets = [n for n in g.nodes if n.kind == "stmt" and isinstance(n.ast, ast.Return)]
    ok = bool(rets) and all(isinstance(r.ast.value, ast.Tuple) and len(r.ast.value.elts) == 2 for r in rets) and not g.falls_through
    ctx.record("R1.4", ctx.key(fn, "returns (obs, info)"), fn.loc(), ok, "reset returns a 2-tuple on every path")


def r1_5(ctx: Ctx) -> None:
    ix = ctx.ix
    ctx.rule("R1.5", "request handlers return a RequestResponse on every path; from_bool(e) gets a bool on every path "
                     "of every class-hierarchy target of e")
    tree = RequestTree(ix)
    if tree.problems:
        raise AnalysisError("request tree: " + "; ".join(tree.problems[:3]))
    sa = ShapeAnalyser(ix, depth=4)
    n_h = n_fb = 0
    seen_handlers: Set[int] = set()
    for ents in tree.slots.values():
        for e in ents:
            if e.target_kind != "handler":
                continue
            encl, node = e.target
            if id(node) in seen_handlers:
                continue
            seen_handlers.add(id(node))
            n_h += 1
            if isinstance(node, ast.Lambda):
                from ..index import FuncInfo as FI
                lam = FI(f"{encl.qualname}.<lambda@{node.lineno}>", "<lambda>", node, encl.module, None, encl, [])
                kinds = sa.expr_kinds(lam, node.body, 4, set())
                hfn = lam
            else:
                hfn = encl
                kinds = sa.func_kinds(encl)
            key = f"{e.site.path}::{e.site.owner}::handler of {e.key_text()}"
            bad = kinds & {"none", "bool", "nonbool"}
            ctx.record("R1.5", key, e.where, not bad,
                       f"handler returns kinds {sorted(kinds)}" + ("" if not bad else " - a request handler must always return a RequestResponse"),
                       sa.evidence.get(id(hfn), [])[:5])
    # every from_bool site in the repository
    for cs in call_sites(ix, ["from_bool"]):
        if cs.fn is None or not cs.call.args:
            continue
        if cs.fn.cls is not None and cs.fn.cls.short == "RequestResponse":
            continue
        n_fb += 1
        arg = cs.call.args[0]
        fnctx = cs.fn
        kinds, reasons = sa.problems_for_call(fnctx, arg)
        BAD = {"none", "nonbool", "response"}
        bad = kinds & BAD
        definite = True
        note = ""
        if bad and isinstance(arg, ast.Call) and isinstance(arg.func, ast.Attribute) and not (
                isinstance(arg.func.value, ast.Name) and arg.func.value.id == "self"):
            # receiver is a typed attribute/local: the class-hierarchy targets are a *may* set (path-insensitive), so the
            # site fails only if no target at all yields a bool
            from ..purity import resolve_callees
            targets, _ = resolve_callees(ix, fnctx, arg)
            per = [sa.func_kinds(t) for t in targets]
            if any(not (k & BAD) for k in per):
                definite = False
                note = (f" (some class-hierarchy targets of {unparse(arg.func)[:40]} return {sorted(bad)}, others a bool; which "
                        "one runs depends on the run-time type of the receiver - reported, not failed)")
        key = f"{cs.path}::{cs.owner}::from_bool({unparse(arg)[:60]})"
        ok = not bad or not definite
        ctx.record("R1.5", key, cs.where, ok,
                   f"argument kinds {sorted(kinds)}" + note + ("" if ok else
                                                              " - from_bool returns None for anything that is not exactly True/False, and "
                                                              "AgentHistoryItem(response=None) raises inside step"),
                   [r for r in reasons if "None" in r or "falls off" in r or "not a bool" in r or "bare" in r][:6])
        if not definite:
            ctx.note(f"R1.5 may-site {cs.where}: {unparse(arg)[:70]} kinds {sorted(kinds)}")
    ctx.floor("R1.5", "request handlers", n_h, 60)
    ctx.floor("R1.5", "from_bool sites", n_fb, 60)


def _accepts(fn_node: ast.AST, n_pos: int, kws: Sequence[str], bound: bool = True) -> Optional[str]:
    a = fn_node.args
    pos = [x.arg for x in a.posonlyargs + a.args]
    if bound and pos and pos[0] in ("self", "cls"):
        pos = pos[1:]
    n_defaults = len(a.defaults)
    required = pos[: len(pos) - n_defaults] if n_defaults else list(pos)
    if n_pos > len(pos) and a.vararg is None:
        return f"takes {len(pos)} positional argument(s) but the pipeline passes {n_pos}"
    consumed = set(pos[:n_pos])
    kwonly = [x.arg for x in a.kwonlyargs]
    for k in kws:
        if k in consumed:
            return f"got multiple values for '{k}'"
        if k not in pos and k not in kwonly and a.kwarg is None:
            return f"does not accept keyword '{k}'"
    supplied = consumed | set(kws)
    missing = [r for r in required if r not in supplied]
    kw_required = [x.arg for x, d in zip(a.kwonlyargs, a.kw_defaults) if d is None and x.arg not in supplied]
    if missing or kw_required:
        return f"required parameter(s) {missing + kw_required} not supplied by the pipeline's call"
    return None


POLY_CALLS = [
    # (caller, method name, base class of the receiver)
    ("PrimaiteGame.apply_agent_actions", "get_action", "AbstractAgent"),
    ("RewardFunction.update", "calculate", "AbstractReward"),
    ("ObservationManager.update", "observe", "AbstractObservation"),
    ("Node.apply_timestep", "apply_timestep", "SimComponent"),
    ("Node.pre_timestep", "pre_timestep", "SimComponent"),
    ("Node.setup_for_episode", "setup_for_episode", "SimComponent"),
    ("Network.describe_state", "describe_state", "SimComponent"),
]


def r1_6(ctx: Ctx) -> None:
    ix = ctx.ix
    ctx.rule("R1.6", "every override of a polymorphically called pipeline method accepts the pipeline's arguments")
    n = 0
    for caller, meth, base in POLY_CALLS:
        cf = ix.method(caller)
        calls = [c for c in calls_in(cf.node) if call_name(c) == meth and isinstance(c.func, ast.Attribute)
                 and not (isinstance(c.func.value, ast.Call) and call_name(c.func.value) == "super")]
        if not calls:
            raise AnalysisError(f"R1.6: {caller} no longer calls .{meth}()")
        shapes = {(len(c.args), tuple(sorted(k.arg for k in c.keywords if k.arg))) for c in calls}
        b = ix.cls(base)
        for f in ix.overrides(b, meth):
            if isinstance(f.node, ast.Lambda):
                continue
            is_static = any(d == "staticmethod" for d in f.decorators)
            for n_pos, kws in sorted(shapes):
                n += 1
                err = _accepts(f.node, n_pos, kws, bound=not is_static)
                ctx.record("R1.6", ctx.key(f, f"accepts {meth}({n_pos} positional, keywords {list(kws)})"), f.loc(), err is None,
                           f"called from {caller}" if err is None else f"{f.short} {err} (call in {caller})")
    ctx.floor("R1.6", "override x call-shape pairs", n, 100)


PIPELINE_CORE = [
    "PrimaiteGymEnv.step", "PrimaiteGymEnv.reset", "PrimaiteGymEnv._get_obs", "PrimaiteGame.step",
    "PrimaiteGame.apply_agent_actions", "PrimaiteGame.advance_timestep", "PrimaiteGame.update_agents",
    "PrimaiteGame.pre_timestep", "PrimaiteGame.get_sim_state", "PrimaiteGame.calculate_truncated",
    "RequestManager.__call__", "RequestManager.check_valid", "SimComponent.apply_request", "ActionManager.get_action",
    "ActionManager.form_request", "ObservationManager.update", "RewardFunction.update",
    "AbstractAgent.process_action_response", "AbstractAgent.update_reward", "AbstractAgent.update_observation",
    "AbstractAgent.format_request", "AbstractAgent.save_reward_to_history",
]


def r1_7(ctx: Ctx) -> None:
    ix = ctx.ix
    ctx.rule("R1.7", "no `raise` in the pipeline core; no `d.get(k).x` dereference on a registry whose entries can be "
                     "removed at run time")
    for spec in PIPELINE_CORE:
        f = ix.method(spec)
        raises = [n for n in walk_shallow(f.node) if isinstance(n, ast.Raise)]
        ctx.record("R1.7", ctx.key(f, "no raise"), f.loc(), not raises,
                   "no raise statement" if not raises else f"raise at line(s) {[r.lineno for r in raises]} inside the step pipeline")
    # removable registries: attributes that have a pop/del/remove/clear site somewhere
    removable: Dict[str, str] = {}
    for f in ix.functions:
        for node in ast.walk(f.node):
            if isinstance(node, ast.Call) and isinstance(node.func, ast.Attribute) and node.func.attr in ("pop", "remove", "clear", "popitem") \
                    and isinstance(node.func.value, ast.Attribute):
                removable.setdefault(node.func.value.attr, f.loc(node))
            elif isinstance(node, ast.Delete):
                for t in node.targets:
                    if isinstance(t, ast.Subscript) and isinstance(t.value, ast.Attribute):
                        removable.setdefault(t.value.attr, f.loc(node))
    n = 0
    # only code that runs while an episode is stepping: request handlers, per-step hooks, frame/payload reception
    tree = RequestTree(ix)
    roots: List[FuncInfo] = []
    for ents in tree.slots.values():
        for e in ents:
            if e.target_kind == "handler":
                encl, hn = e.target
                roots.append(FuncInfo(f"{encl.qualname}.<lambda@{hn.lineno}>", "<lambda>", hn, encl.module, None, encl, [])
                             if isinstance(hn, ast.Lambda) else encl)
    roots += [f for f in ix.functions if f.name in ("apply_timestep", "pre_timestep", "receive", "receive_frame", "receive_payload_from_session_manager")
              and f.path.startswith("src/primaite/simulator/") and not isinstance(f.node, ast.Lambda)]
    runtime = _closure(ix, roots)

    def membership_guarded(f: FuncInfo, site: ast.AST, table: str, ktxt: str) -> bool:
        """Is the site reached only past a test that the key is in the table (directly, or via predicates up to two calls deep
        that test membership in an attribute of the same name)?"""
        if isinstance(f.node, ast.Lambda):
            return False
        g = CFG(f.node)
        ld = LocalDefs(f.node)
        here = [nd for nd in g.nodes if nd.ast is not None and nd.kind in ("stmt", "cond") and any(x is site for x in ast.walk(nd.ast))]
        tattr = table.split(".")[-1]

        def pred_tests(h: FuncInfo, depth: int) -> bool:
            for y in ast.walk(h.node):
                if isinstance(y, ast.Compare) and isinstance(y.ops[0], ast.In) and unparse(y.comparators[0]).endswith("." + tattr):
                    return True
            if depth > 0:
                from ..purity import resolve_callees
                for c in calls_in(h.node):
                    tg = resolve_callees(ix, h, c)[0]
                    if not tg and isinstance(c.func, ast.Attribute):
                        tg = [t for t in ix.functions if t.name == c.func.attr and t.cls is not None]  # untyped receiver: by name
                    for t in tg:
                        if not isinstance(t.node, ast.Lambda) and pred_tests(t, depth - 1):
                            return True
            return False

        def edge(e) -> bool:
            if not (e.label and e.label[0] == "cond" and e.label[2] is True):
                return False
            x = ld.expand(e.label[1])
            if isinstance(x, ast.Compare) and len(x.ops) == 1 and isinstance(x.ops[0], ast.In) and unparse(x.left) == ktxt \
                    and unparse(x.comparators[0]) == table:
                return True
            if isinstance(x, ast.Call) and any(unparse(a) == ktxt for a in list(x.args) + [k.value for k in x.keywords]):
                from ..purity import resolve_callees
                return any(pred_tests(t, 1) for t in resolve_callees(ix, f, x)[0] if not isinstance(t.node, ast.Lambda))
            return False

        return bool(here) and g.path_avoiding(here, edge) is None

    for f, _path in runtime.values():
        for node in ast.walk(f.node):
            if isinstance(node, (ast.Attribute, ast.Call, ast.Subscript)):
                v = node.value if isinstance(node, (ast.Attribute, ast.Subscript)) else node.func
                if (isinstance(v, ast.Call) and isinstance(v.func, ast.Attribute) and v.func.attr == "get" and len(v.args) == 1
                        and not v.keywords):
                    n += 1
                    base = v.func.value
                    attr = base.attr if isinstance(base, ast.Attribute) else None
                    key = ctx.key(f, f"{unparse(v)[:50]} dereferenced")
                    karg = v.args[0]
                    own_key = (isinstance(karg, ast.Call) and call_name(karg) == "next" and karg.args and isinstance(karg.args[0], ast.Call)
                               and call_name(karg.args[0]) == "iter" and karg.args[0].args and unparse(karg.args[0].args[0]) == unparse(base))
                    if own_key:
                        ctx.ok("R1.7", key, f.loc(node), f"`{unparse(node)[:60]}`: the key is taken from the mapping itself")
                    elif attr in removable and membership_guarded(f, node, unparse(base), unparse(v.args[0])):
                        ctx.ok("R1.7", key, f.loc(node), f"`{unparse(node)[:60]}`: reached only past a membership test of `{attr}`")
                    elif attr in removable:
                        ctx.fail("R1.7", key, f.loc(node),
                                 f"`{unparse(node)[:70]}`: .get() admits the key may be absent, and entries of `{attr}` are removed at "
                                 f"{removable[attr]} - the dereference raises AttributeError/TypeError when it is",)
                    else:
                        ctx.ok("R1.7", key, f.loc(node), f"`{unparse(node)[:60]}`: no run-time removal from this mapping found")
    ctx.floor("R1.7", "`.get(k)` dereference sites inspected", n, 1)


# explicit raise statements reachable (resolved call graph, depth 4) from a request handler, triaged by hand.
# value: reason why the raise cannot be reached from a request (guard named), or None = genuinely reachable (reported).
RAISE_TRIAGE: Dict[Tuple[str, str], Optional[str]] = {
    ("port_validator", "ValueError"): "configure requests come from actions whose schema already validated the port (pydantic Port type)",
    ("Folder.remove_file", "Exception"): "only reached through remove_file_by_name, which passes a File taken from self.files",
    ("Folder.add_file", "Exception"): "the create-file handler refuses an existing name unless force is set (C15 R15.4); the file passed is a fresh File",
    ("AccessControlList.add_rule", "ValueError"): None,
    ("AccessControlList.remove_rule", "ValueError"): None,
}


def r1_8(ctx: Ctx) -> None:
    ix = ctx.ix
    ctx.rule("R1.8", "explicit `raise` statements reachable in the resolved call graph (depth 4) from a request handler are "
                     "either guarded on that route (frozen triage table, one reason each) or reported: a handler that "
                     "raises makes step() raise.  May-analysis: 'reachable in the call graph', not 'raised'")
    from ..inventory import own_nodes
    from ..purity import resolve_callees
    tree = RequestTree(ix)
    roots: List[FuncInfo] = []
    for ents in tree.slots.values():
        for e in ents:
            if e.target_kind == "handler":
                encl, node = e.target
                if isinstance(node, ast.Lambda):
                    roots.append(FuncInfo(f"{encl.qualname}.<lambda@{node.lineno}>", "<lambda>", node, encl.module, None, encl, []))
                else:
                    roots.append(encl)
    seen: Dict[int, Tuple[FuncInfo, List[str]]] = {}
    work = [(r, 0, [r.short]) for r in roots]
    while work:
        f, d, path = work.pop()
        if id(f.node) in seen:
            continue
        seen[id(f.node)] = (f, path)
        if d >= 4:
            continue
        for n, lam in own_nodes(f.node):
            if isinstance(n, ast.Call):
                tg, _ = resolve_callees(ix, f, n)
                for x in tg:
                    work.append((x, d + 1, path + [x.short]))
    n_sites = 0
    reported: Set[Tuple[str, str]] = set()
    for f, path in seen.values():
        if isinstance(f.node, ast.Lambda):
            continue
        # raises inside a try body that has handlers are caught locally
        caught: Set[int] = set()
        for t in ast.walk(f.node):
            if isinstance(t, ast.Try) and t.handlers:
                for b in t.body:
                    for x in ast.walk(b):
                        caught.add(id(x))
        for r in ast.walk(f.node):
            if not isinstance(r, ast.Raise) or id(r) in caught:
                continue
            exc = r.exc.func if isinstance(r.exc, ast.Call) else r.exc
            key = (f.short, unparse(exc) if exc is not None else "re-raise")
            if key in reported:
                continue
            reported.add(key)
            n_sites += 1
            if key in RAISE_TRIAGE and RAISE_TRIAGE[key] is not None:
                ctx.ok("R1.8", ctx.key(f, f"raise {key[1]} not reachable from a request"), f.loc(r), RAISE_TRIAGE[key] + f" (route {' > '.join(path[-3:])})")
            else:
                ctx.fail("R1.8", ctx.key(f, f"raise {key[1]} not reachable from a request"), f.loc(r),
                         f"`{unparse(r)[:70]}` is reachable in the call graph from a request handler ({' > '.join(path[-3:])}) with no guard on "
                         "that route: the exception propagates through apply_request out of step()")
    ctx.floor("R1.8", "raise sites in the handler closure", n_sites, 4)
    ctx.count("functions in the request-handler closure (depth 4)", len(seen))


def r1_9(ctx: Ctx) -> None:
    """Engler-style contradiction: use, then check."""
    ix = ctx.ix
    ctx.rule("R1.9", "no local is dereferenced on every path *before* the function itself tests it for None / truthiness "
                     "(the later test states the belief that it may be None; the earlier dereference then raises)")

    def chain_text(e: ast.AST) -> Optional[str]:
        """Text of a name or of a pure attribute chain (`x`, `self._host_db_client`); None otherwise."""
        x = e
        while isinstance(x, ast.Attribute):
            x = x.value
        return unparse(e) if isinstance(x, ast.Name) and isinstance(e, (ast.Name, ast.Attribute)) else None

    def derefs(node: CNode, name: str) -> bool:
        r = node.expr_root()
        if r is None or isinstance(r, (ast.FunctionDef, ast.AsyncFunctionDef, ast.ClassDef, ast.ExceptHandler)):
            return False
        def tests(e: ast.AST) -> Optional[bool]:
            """True: e holds only if `name` is not None/falsy; False: e holds only if it is None/falsy; None: no test of it."""
            if chain_text(e) == name:
                return True
            if isinstance(e, ast.UnaryOp) and isinstance(e.op, ast.Not):
                t = tests(e.operand)
                return None if t is None else not t
            if isinstance(e, ast.Compare) and len(e.ops) == 1 and chain_text(e.left) == name \
                    and isinstance(e.comparators[0], ast.Constant) and e.comparators[0].value is None:
                return isinstance(e.ops[0], (ast.IsNot, ast.NotEq))
            return None

        def unprotected(e: ast.AST) -> bool:
            # operands after a test of the name inside one expression come after the test (`x and x.a`, `x.a if x else d`)
            if isinstance(e, ast.BoolOp):
                for v in e.values:
                    if unprotected(v):
                        return True
                    if tests(v) is not None:
                        return False  # what follows is evaluated *after* the test (this rule is about uses before it)
                return False
            if isinstance(e, ast.IfExp):
                if unprotected(e.test):
                    return True
                if tests(e.test) is not None:
                    return False
                return unprotected(e.body) or unprotected(e.orelse)
            if isinstance(e, (ast.Lambda, ast.FunctionDef, ast.AsyncFunctionDef, ast.ClassDef)):
                return False
            if isinstance(e, (ast.Attribute, ast.Subscript)) and chain_text(e.value) == name:
                return True
            if isinstance(e, ast.Call) and chain_text(e.func) == name:
                return True
            return any(unprotected(c) for c in ast.iter_child_nodes(e) if not isinstance(c, (ast.stmt,)) or c is e)

        if isinstance(r, ast.stmt):
            # only what is evaluated at this node, not nested bodies
            parts = [c for c in ast.iter_child_nodes(r) if isinstance(c, (ast.expr, ast.keyword, ast.withitem))]
            return any(unprotected(c) for c in parts)
        return unprotected(r)

    def binds(node: CNode, name: str) -> bool:
        a = node.ast

        def names(t):
            if isinstance(t, ast.Attribute) and chain_text(t) is not None:
                yield chain_text(t)
            if isinstance(t, ast.Name):
                yield t.id
            elif isinstance(t, (ast.Tuple, ast.List)):
                for e in t.elts:
                    yield from names(e)
            elif isinstance(t, ast.Starred):
                yield from names(t.value)

        if node.kind == "for":
            return name in set(names(a.target))
        if node.kind == "with":
            return any(it.optional_vars is not None and name in set(names(it.optional_vars)) for it in a.items)
        if isinstance(a, (ast.Assign, ast.AnnAssign, ast.AugAssign)):
            tg = a.targets if isinstance(a, ast.Assign) else [a.target]
            return any(name in set(names(x)) for x in tg)
        return any(isinstance(x, ast.NamedExpr) and x.target.id == name for x in ast.walk(a)) if a is not None else False

    def may_be_none(f: FuncInfo, e: ast.Attribute) -> bool:
        """The attribute is declared Optional (field annotation or property return annotation); unknown -> False."""
        from ..types import func_types
        try:
            owner, _sh = func_types(ix, f).expr_type(e.value)
        except Exception:  # noqa: BLE001
            return False
        if owner is None:
            return False
        r = ix.find_field(owner, e.attr)
        ann = unparse(r[1].ann) if r is not None and r[1].ann is not None else None
        if ann is None:
            m = ix.find_method(owner, e.attr)
            if m is not None and not isinstance(m.node, ast.Lambda):
                if m.node.returns is not None:
                    ann = unparse(m.node.returns)
                # a property whose body looks something up with .get(...) or returns None says so itself, whatever it is annotated
                if any(isinstance(x, ast.Call) and isinstance(x.func, ast.Attribute) and x.func.attr == "get" for x in ast.walk(m.node)) or any(
                        isinstance(x, ast.Return) and (x.value is None or (isinstance(x.value, ast.Constant) and x.value.value is None))
                        for x in ast.walk(m.node)):
                    return True
        return ann is not None and ("Optional" in ann or "None" in ann)

    n_checks = 0
    for f in ix.functions:
        if isinstance(f.node, ast.Lambda):
            continue
        if not any(isinstance(x, (ast.If, ast.IfExp, ast.While, ast.Assert)) for x in ast.walk(f.node)):
            continue
        g = CFG(f.node)
        checks = []
        for n in g.nodes:
            if n.kind != "cond":
                continue
            e = n.ast
            nm = None
            if isinstance(e, ast.Name):
                nm = e.id
            elif isinstance(e, ast.Compare) and len(e.ops) == 1 and isinstance(e.ops[0], (ast.Is, ast.IsNot)) \
                    and isinstance(e.comparators[0], ast.Constant) and e.comparators[0].value is None:
                # a local, or an attribute chain rooted at self / a local (`self._host_db_client is None`): with the normal form a
                # local that only named such a chain is presented as the chain
                nm = chain_text(e.left)
                if nm and isinstance(e.left, ast.Attribute) and not may_be_none(f, e.left):
                    nm = None  # a field that is declared non-optional: the test is redundant, not a stated belief
            if nm and nm not in ("self", "cls"):
                checks.append((n, nm))
        if not checks:
            continue
        dom = g.dominators()
        for cn, nm in checks:
            n_checks += 1
            blockers = {x.id for x in g.nodes if x.kind != "entry" and binds(x, nm)}
            for d in g.nodes:
                if d is cn or d.kind == "entry" or d.id not in dom.get(cn.id, ()) or d.id in blockers:
                    continue
                if not derefs(d, nm):
                    continue
                p = g.path_avoiding([cn], lambda e: False, start=d, blocked_nodes=blockers)
                if p is not None:
                    ctx.fail("R1.9", ctx.key(f, f"`{nm}` is tested before it is dereferenced"), f.loc(d.ast),
                             f"`{unparse(d.expr_root())[:60]}` (line {d.lineno}) dereferences `{nm}` on every path to the test "
                             f"`{unparse(cn.ast)[:40]}` (line {cn.lineno}): when `{nm}` is None the function raises before it can take the branch that handles it")
                    break
    ctx.floor("R1.9", "None/truthiness tests of locals inspected", n_checks, 200)
    ctx.ok("R1.9", "src/primaite::<package>::use-then-check contradictions", "", f"{n_checks} tests of locals inspected, none is preceded on every path by a dereference of the same local")


# pops keyed by an identifier whose presence rests on an invariant the analysis can see elsewhere (one reason each)
POP_TRIAGE: Dict[Tuple[str, str], str] = {
    ("SoftwareManager.uninstall", "self.node.applications"):
        "`software` was fetched from self.software under the `in` guard above; install() files every Application in "
        "node.applications in the same call that files it in self.software (C13 R13.4 pairing)",
    ("SoftwareManager.uninstall", "self.node.services"):
        "same pairing for services",
}


def _closure(ix, roots: List[FuncInfo], depth: int = 4) -> Dict[int, Tuple[FuncInfo, List[str]]]:
    from ..inventory import own_nodes
    from ..purity import resolve_callees
    seen: Dict[int, Tuple[FuncInfo, List[str]]] = {}
    work = [(r, 0, [r.short]) for r in roots]
    while work:
        f, d, path = work.pop()
        if id(f.node) in seen:
            continue
        seen[id(f.node)] = (f, path)
        if d >= depth:
            continue
        for n, lam in own_nodes(f.node):
            if isinstance(n, ast.Call):
                tg, _ = resolve_callees(ix, f, n)
                for x in tg:
                    work.append((x, d + 1, path + [x.short]))
    return seen


def r1_10(ctx: Ctx) -> None:
    """`table.pop(key)` with no default raises KeyError when the key is absent.  In code reached from a request handler or from
    the per-step hooks that is an exception out of step() unless presence is established first.  Two kinds of key have no
    local reason to be present: a string handed in by the caller (a request argument travels down unchanged), and any key
    used on another component's table (self.parent.x.table / self.software_manager.x.table): those must sit behind a
    membership test of that same table (`k in t`, `t.get(k)`, a helper predicate doing so) or give pop a default."""
    ix = ctx.ix
    ctx.rule("R1.10", "in the request-handler and per-step closures a single-argument pop keyed by a caller-supplied string or "
                      "applied to another component's table is dominated by a membership test of that table (or triaged)")
    tree = RequestTree(ix)
    roots: List[FuncInfo] = []
    for ents in tree.slots.values():
        for e in ents:
            if e.target_kind == "handler":
                encl, node = e.target
                if isinstance(node, ast.Lambda):
                    roots.append(FuncInfo(f"{encl.qualname}.<lambda@{node.lineno}>", "<lambda>", node, encl.module, None, encl, []))
                else:
                    roots.append(encl)
    roots += [f for f in ix.functions if f.name in ("apply_timestep", "pre_timestep") and f.path.startswith("src/primaite/simulator/")
              and not isinstance(f.node, ast.Lambda)]
    seen = _closure(ix, roots)
    n = 0
    done: Set[Tuple[str, str]] = set()
    for f, path in seen.values():
        if isinstance(f.node, ast.Lambda):
            continue
        str_params = set()
        for a in f.node.args.args + f.node.args.kwonlyargs:
            ann = unparse(a.annotation) if a.annotation is not None else ""
            if a.arg not in ("self", "cls") and ("str" in ann or ann == ""):
                str_params.add(a.arg)
        g = None
        for c in ast.walk(f.node):
            if not (isinstance(c, ast.Call) and isinstance(c.func, ast.Attribute) and c.func.attr == "pop" and len(c.args) == 1 and not c.keywords):
                continue
            table, key = unparse(c.func.value), c.args[0]
            caller_key = isinstance(key, ast.Name) and key.id in str_params
            foreign = table.count(".") >= 2
            if not (caller_key or foreign):
                continue
            ident = (f.short, unparse(c))
            if ident in done:
                continue
            done.add(ident)
            n += 1
            k = ctx.key(f, f"{unparse(c)[:70]} is guarded")
            if (f.short, table) in POP_TRIAGE:
                ctx.ok("R1.10", k, f.loc(c), POP_TRIAGE[(f.short, table)])
                continue
            g = g or CFG(f.node)
            ld = LocalDefs(f.node)
            here = [nd for nd in g.nodes if nd.ast is not None and any(x is c for x in ast.walk(nd.ast)) and nd.kind in ("stmt", "cond")]
            ktxt = unparse(key)

            def member_edge(e) -> bool:
                if not (e.label and e.label[0] == "cond"):
                    return False
                x, pol = ld.expand(e.label[1]), e.label[2]
                neg = False
                while isinstance(x, ast.UnaryOp) and isinstance(x.op, ast.Not):
                    x, neg = x.operand, not neg
                want = pol is (not neg)
                if isinstance(x, ast.Name):
                    # a local bound to table.get(key) (its other bindings, if any, are falsy constants): truthy => present
                    vals = [v for v, _ in ld.all_values(x.id) if v is not None]
                    gets = [v for v in vals if isinstance(v, ast.Call) and isinstance(v.func, ast.Attribute) and v.func.attr == "get"
                            and unparse(v.func.value) == table and v.args and unparse(v.args[0]) == ktxt]
                    rest = [v for v in vals if v not in gets]
                    if gets and all(isinstance(v, ast.Constant) and not v.value for v in rest):
                        return want
                    return False
                if isinstance(x, ast.Compare) and len(x.ops) == 1 and isinstance(x.ops[0], (ast.In, ast.NotIn)) \
                        and unparse(x.left) == ktxt and unparse(x.comparators[0]) in (table, table + ".keys()"):
                    return want if isinstance(x.ops[0], ast.In) else not want
                if isinstance(x, ast.Call) and isinstance(x.func, ast.Attribute) and x.func.attr == "get" and unparse(x.func.value) == table \
                        and x.args and unparse(x.args[0]) == ktxt:
                    return want
                if isinstance(x, ast.Compare) and len(x.ops) == 1 and isinstance(x.left, ast.Call) and isinstance(x.left.func, ast.Attribute) \
                        and x.left.func.attr == "get" and unparse(x.left.func.value) == table and x.left.args and unparse(x.left.args[0]) == ktxt \
                        and isinstance(x.comparators[0], ast.Constant) and x.comparators[0].value is None:
                    return want == isinstance(x.ops[0], (ast.IsNot, ast.NotEq))
                # helper predicate: self.<h>(<...key...>) whose body tests membership in the same table attribute
                if isinstance(x, ast.Call) and isinstance(x.func, ast.Attribute) and unparse(x.func.value) == "self" and f.cls is not None \
                        and any(unparse(a) == ktxt for a in list(x.args) + [kw.value for kw in x.keywords]):
                    h = ix.find_method(f.cls, x.func.attr)
                    tattr = table.split(".")[-1]
                    if h is not None and not isinstance(h.node, ast.Lambda) and any(
                            isinstance(y, ast.Compare) and isinstance(y.ops[0], ast.In) and unparse(y.comparators[0]).endswith("." + tattr)
                            for y in ast.walk(h.node)):
                        return want
                return False

            p = g.path_avoiding(here, member_edge) if here else None
            why = "caller-supplied key" if caller_key else "another component's table"
            ctx.record("R1.10", k, f.loc(c), bool(here) and p is None,
                       f"{why}: reached only after a membership test of {table}" if p is None else
                       f"{why}: `{unparse(c)}` can run with the key absent (route {' > '.join(path[-3:])}): KeyError propagates out of "
                       f"{'apply_request' if 'request' in path[0] or 'lambda' in path[0] else 'the timestep'}, i.e. out of step()",
                       path_text(p))
    ctx.floor("R1.10", "unguardable-by-construction pop sites inspected", n, 3)



def r1_11(ctx: Ctx) -> None:
    """Two more contradiction rules (a stated belief, then code that ignores it), both ending in an exception out of step()/reset():
    (a) a function that tests `k >= len(T)` believes k may be out of range; on that edge `T[k]` must not be reached before k is
        re-bound (folded back, clamped);
    (b) a loop over a live view of `self.T` (the attribute itself, .values(), .items(), .keys()) must not call - directly or through
        its own methods, two calls deep - code that removes from or adds to `self.T`: "dictionary changed size during iteration"."""
    ix = ctx.ix
    ctx.rule("R1.11", "(a) on the `k >= len(T)` edge T[k] is not read before k is re-bound; (b) no loop over a live view of self.T "
                      "reaches a removal from / insertion into self.T (snapshot with list(...) first)")
    n_a = n_b = 0
    for f in ix.functions:
        if isinstance(f.node, ast.Lambda) or not f.path.startswith("src/primaite/"):
            continue
        has_len = any(isinstance(x, ast.Compare) and any(isinstance(y, ast.Call) and isinstance(y.func, ast.Name) and y.func.id == "len" for y in ast.walk(x))
                      for x in ast.walk(f.node))
        has_for = any(isinstance(x, ast.For) for x in ast.walk(f.node))
        if not (has_len or has_for):
            continue
        g = None
        if has_len:
            g = CFG(f.node)
            for e in g.edges():
                if not (e.label and e.label[0] == "cond" and isinstance(e.label[1], ast.Compare) and len(e.label[1].ops) == 1):
                    continue
                c = e.label[1]
                l, op, r = c.left, c.ops[0], c.comparators[0]
                k = tbl = None
                oob_when = None
                if isinstance(l, ast.Name) and isinstance(r, ast.Call) and isinstance(r.func, ast.Name) and r.func.id == "len" and r.args:
                    k, tbl = l.id, unparse(r.args[0])
                    oob_when = True if isinstance(op, ast.GtE) else (False if isinstance(op, ast.Lt) else None)
                elif isinstance(r, ast.Name) and isinstance(l, ast.Call) and isinstance(l.func, ast.Name) and l.func.id == "len" and l.args:
                    k, tbl = r.id, unparse(l.args[0])
                    oob_when = True if isinstance(op, ast.LtE) else (False if isinstance(op, ast.Gt) else None)
                if k is None or oob_when is None or e.label[2] is not oob_when:
                    continue
                reads = [n for n in g.nodes if n.ast is not None and n.kind in ("stmt", "cond") and n.expr_root() is not None and any(
                    isinstance(x, ast.Subscript) and isinstance(x.ctx, ast.Load) and unparse(x.value) == tbl and isinstance(x.slice, ast.Name)
                    and x.slice.id == k for x in ast.walk(n.expr_root()))]
                if not reads:
                    continue
                n_a += 1
                rebinds = {n.id for n in g.nodes if isinstance(n.ast, (ast.Assign, ast.AugAssign, ast.AnnAssign)) and any(
                    isinstance(t, ast.Name) and t.id == k for t in ast.walk(n.ast) if isinstance(t, ast.Name) and isinstance(t.ctx, ast.Store))}
                p = None if e.dst.id in rebinds else g.path_avoiding(reads, lambda x: False, start=e.dst, blocked_nodes=rebinds)
                if e.dst in reads and e.dst.id not in rebinds:
                    p = []
                ctx.record("R1.11", ctx.key(f, f"{tbl}[{k}] is not read on the `{k}` out-of-range edge"), f.loc(c), p is None,
                           f"on the edge where {k} >= len({tbl}) every path re-binds {k} before {tbl}[{k}] is read" if p is None else
                           f"`{unparse(c)}` states that {k} may be out of range, yet {tbl}[{k}] is reached on that edge without {k} being "
                           f"re-bound: KeyError / IndexError", path_text(p) if p else None)
        if has_for and f.cls is not None:
            for loop in [x for x in ast.walk(f.node) if isinstance(x, ast.For)]:
                it = loop.iter
                base = it.func.value if (isinstance(it, ast.Call) and isinstance(it.func, ast.Attribute) and it.func.attr in ("values", "items", "keys")
                                         and not it.args) else it
                if not (isinstance(base, ast.Attribute) and isinstance(base.value, ast.Name) and base.value.id == "self"):
                    continue
                attr = base.attr
                n_b += 1

                def mutates(fn_: FuncInfo, depth: int, seen: Set[int]) -> Optional[str]:
                    for x in ast.walk(fn_.node) if fn_ is not f else [y for b in loop.body for y in ast.walk(b)]:
                        if isinstance(x, ast.Call) and isinstance(x.func, ast.Attribute) and x.func.attr in ("pop", "popitem", "clear", "remove", "append", "add", "update", "setdefault") \
                                and unparse(x.func.value) == f"self.{attr}":
                            return f"{fn_.short}: {unparse(x)[:60]}"
                        if isinstance(x, ast.Delete) and any(isinstance(t, ast.Subscript) and unparse(t.value) == f"self.{attr}" for t in x.targets):
                            return f"{fn_.short}: {unparse(x)[:60]}"
                        if isinstance(x, ast.Call) and isinstance(x.func, ast.Attribute) and unparse(x.func.value) == "self" and depth > 0:
                            h = ix.find_method(f.cls, x.func.attr)
                            if h is not None and id(h) not in seen and not isinstance(h.node, ast.Lambda):
                                seen.add(id(h))
                                r_ = mutates(h, depth - 1, seen)
                                if r_:
                                    return r_
                    return None

                hit = mutates(f, 2, {id(f)})
                # leaving the loop right after the mutation (break / return in the same block) is safe
                if hit:
                    g = g or CFG(f.node)
                    fornode = next((n for n in g.nodes if n.kind == "for" and n.ast is loop), None)
                    body_calls = [n for n in g.nodes if loop in n.loops and n.kind in ("stmt", "cond") and n.expr_root() is not None and (
                        any(isinstance(x, ast.Call) for x in ast.walk(n.expr_root())) or isinstance(n.ast, ast.Delete))]
                    again = fornode is not None and any(g.path_avoiding([fornode], lambda e: False, start=n) is not None for n in body_calls)
                    if not again:
                        hit = None
                ctx.record("R1.11", ctx.key(f, f"loop over self.{attr} does not change self.{attr}"), f.loc(loop), hit is None,
                           f"the body (two calls deep) neither removes from nor inserts into self.{attr}" if hit is None else
                           f"the loop iterates over a live view of self.{attr} while {hit} changes its size: RuntimeError on the next iteration")
    ctx.floor("R1.11", "out-of-range edges with a read of the same index", n_a, 1)
    ctx.floor("R1.11", "loops over a live view of a self attribute", n_b, 40)



NON_JSON_TYPES = ("IPv4Address", "IPV4Address", "IPv4Network", "IPv6Address", "datetime", "Path", "Set[", "set[", "FrozenSet", "frozenset")


def r1_12(ctx: Ctx) -> None:
    """Every response ends up in the agent history, which reset()/close() write with json.dump(default=model_dump): a value that is
    neither JSON nor a pydantic model (an IPv4Address, a set, a datetime ...) makes the *next reset* raise.  Values of response `data`
    dictionaries whose static type (annotation of the attribute / parameter / local read) is such a type must be converted."""
    from ..types import func_types
    ix = ctx.ix
    ctx.rule("R1.12", "values placed in RequestResponse data are JSON-serialisable by their static type (no raw IPv4Address / set / "
                      "datetime / Path): the action log written at reset()/close() json-dumps them")
    n = 0
    for f in ix.functions:
        if not f.path.startswith("src/primaite/simulator/"):
            continue
        dicts: List[ast.Dict] = []
        for x in ast.walk(f.node):
            if isinstance(x, ast.Call) and call_name(x) in ("RequestResponse",) :
                d = kwarg(x, "data")
                if isinstance(d, ast.Dict):
                    dicts.append(d)
            if isinstance(x, ast.Assign) and isinstance(x.value, ast.Dict) and any(isinstance(t, ast.Attribute) and t.attr == "data" for t in x.targets):
                dicts.append(x.value)
        if not dicts:
            continue
        ft = func_types(ix, f) if not isinstance(f.node, ast.Lambda) else None
        ld = LocalDefs(f.node) if not isinstance(f.node, ast.Lambda) else None

        def static_ann(e: ast.AST) -> Optional[str]:
            if isinstance(e, ast.Call) and isinstance(e.func, ast.Name) and e.func.id in ("IPv4Address", "IPv4Network", "set", "frozenset", "Path"):
                return e.func.id if e.func.id not in ("set", "frozenset") else "set["
            if isinstance(e, ast.Attribute) and ft is not None:
                rc, sh = ft.expr_type(e.value)
                if rc is not None and sh == "scalar":
                    fld = ix.find_field(rc, e.attr)
                    if fld is not None and fld[1].ann is not None:
                        return unparse(fld[1].ann)
            if isinstance(e, ast.Name) and ld is not None:
                for a in f.node.args.args + f.node.args.kwonlyargs:
                    if a.arg == e.id and a.annotation is not None:
                        return unparse(a.annotation)
                for st in ast.walk(f.node):
                    if isinstance(st, ast.AnnAssign) and isinstance(st.target, ast.Name) and st.target.id == e.id:
                        return unparse(st.annotation)
                d_ = ld.single(e.id)
                if d_ and d_[0] is not None and d_[1] is None and not isinstance(d_[0], ast.Name):
                    return static_ann(d_[0])
            return None

        def visit(v: ast.AST) -> None:
            nonlocal n
            if isinstance(v, ast.Dict):
                for vv in v.values:
                    visit(vv)
                return
            if isinstance(v, (ast.List, ast.Tuple)):
                for vv in v.elts:
                    visit(vv)
                return
            n += 1
            ann = static_ann(v)
            bad = ann is not None and any(t in ann for t in NON_JSON_TYPES)
            ctx.record("R1.12", ctx.key(f, f"response data value {unparse(v)[:50]} is serialisable"), f.loc(v), not bad,
                       f"static type {ann or 'not a known non-JSON type'}" if not bad else
                       f"`{unparse(v)[:60]}` has static type {ann}: json.dump of the action log (default=model_dump) raises AttributeError "
                       f"at the next reset()/close() once a response carrying it is in an agent's history; convert it (str(...))")

        for d in dicts:
            for vv in d.values:
                visit(vv)
    ctx.floor("R1.12", "response data values inspected", n, 30)



DIV_TRIAGE = {
    ("EpisodeListScheduler.__call__", "self.schedule"): "an episode schedule with no entries is rejected when the scheduler is built (build_scheduler reads "
                                                      "schedule.yaml, whose `schedule` mapping lists at least episode 0); not reachable from step()/reset() with a valid scenario",
}


def r1_13(ctx: Ctx) -> None:
    """A division (or modulo) by `len(X)` raises ZeroDivisionError for an empty X: it must be dominated by a test that this same X is
    non-empty (`if X:`, `len(X) > 0`, `if not X: return`).  A guard on a *different* collection (the unfiltered list) does not count.
    Plus C11's validator table (R11.4) applied here: a permission rule that dereferences a look-up result it has not tested raises
    out of apply_request and out of the action mask."""
    ix = ctx.ix
    ctx.rule("R1.13", "`/ len(X)` and `% len(X)` are dominated by a non-emptiness test of the same X (or triaged); permission rules "
                      "compute their predicate on every input (= C11 R11.4)")
    n = 0
    for f in ix.functions:
        if isinstance(f.node, ast.Lambda) or not f.path.startswith(("src/primaite/game", "src/primaite/simulator", "src/primaite/session")):
            continue
        divs = [x for x in ast.walk(f.node) if isinstance(x, ast.BinOp) and isinstance(x.op, (ast.Div, ast.FloorDiv, ast.Mod))
                and isinstance(x.right, ast.Call) and isinstance(x.right.func, ast.Name) and x.right.func.id == "len" and x.right.args]
        if not divs:
            continue
        g = CFG(f.node)
        ld = LocalDefs(f.node)
        for d in divs:
            subj = unparse(d.right.args[0])
            n += 1
            key = ctx.key(f, f"`{unparse(d)[:50]}`: {subj} is known to be non-empty")
            if (f.short, subj) in DIV_TRIAGE:
                ctx.ok("R1.13", key, f.loc(d), DIV_TRIAGE[(f.short, subj)])
                continue
            here = [nd for nd in g.nodes if nd.expr_root() is not None and any(x is d for x in ast.walk(nd.expr_root()))]

            def nonempty(e) -> bool:
                if not (e.label and e.label[0] == "cond"):
                    return False
                t, pol = e.label[1], e.label[2]
                if unparse(t) == subj:
                    return pol is True
                if isinstance(t, ast.Compare) and len(t.ops) == 1 and unparse(t.left) == f"len({subj})" and isinstance(t.comparators[0], ast.Constant):
                    c0 = t.comparators[0].value
                    if isinstance(t.ops[0], ast.Gt) and c0 == 0 or isinstance(t.ops[0], ast.GtE) and c0 == 1 or isinstance(t.ops[0], ast.NotEq) and c0 == 0:
                        return pol is True
                    if isinstance(t.ops[0], ast.Eq) and c0 == 0 or isinstance(t.ops[0], ast.Lt) and c0 == 1:
                        return pol is False
                return False

            p = g.path_avoiding(here, nonempty) if here else []
            ctx.record("R1.13", key, f.loc(d), p is None,
                       f"reached only where `{subj}` is non-empty" if p is None else
                       f"`{unparse(d)[:60]}` divides by the length of `{subj}` without a test that `{subj}` itself is non-empty: ZeroDivisionError "
                       "out of the step when it is empty", path_text(p) if p else None)
    ctx.floor("R1.13", "divisions by a length", n, 1)
    from . import c11
    with ctx.borrowed({"R11.4": "R1.13"}):
        c11.r11_4(ctx)



def check(ctx: Ctx) -> None:
    r1_9(ctx)
    r1_8(ctx)
    r1_1(ctx)
    r1_2(ctx)
    r1_3(ctx)
    r1_4(ctx)
    r1_5(ctx)
    r1_6(ctx)
    r1_7(ctx)
    r1_10(ctx)
    r1_11(ctx)
    r1_12(ctx)
    r1_13(ctx)
    # "a step ... returns an observation": an observation that leaves its declared space (value above the top of a Discrete leaf,
    # a state-keyed look-up without default) makes the flattening / the look-up raise inside step - C02's rules decide that
    from ..obsmodel import ObsModel
    from . import c02
    om = ObsModel(ctx.ix)
    with ctx.borrowed({"R2.2": "R1.14", "R2.3": "R1.15"}):
        c02.r2_2(ctx, om)
        c02.r2_3(ctx, om)
