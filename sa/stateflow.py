"""E7a - forward dataflow of an enum-valued state field over a function's CFG.

The abstract value at a node is the set of members the field `<subject>.<field>` may hold when the node starts
executing.  Branch edges that test the field narrow the set, stores replace it, calls that may change the field
(as told by the caller) widen it to the whole enum.
"""
from __future__ import annotations

import ast
from typing import Callable, Dict, FrozenSet, Iterable, List, Optional, Sequence, Set, Tuple

from .astutil import call_name, unparse
from .cfg import CFG, CNode, Edge, LocalDefs
from .rules.common import edge_state_set, enum_member, node_calls


def store_of_field(n: CNode, subject: str, field_names: Sequence[str]) -> Optional[ast.AST]:
    """If node n assigns `<subject>.<field> = value` return value."""
    a = n.ast
    if n.kind != "stmt" or not isinstance(a, (ast.Assign, ast.AnnAssign)):
        return None
    targets = a.targets if isinstance(a, ast.Assign) else [a.target]
    for t in targets:
        if isinstance(t, ast.Attribute) and t.attr in field_names and unparse(t.value) == subject:
            return a.value
    return None


def state_flow(
    g: CFG,
    subject: str,
    field_names: Sequence[str],
    universe: Set[str],
    havoc_call: Callable[[ast.Call], bool] = lambda c: False,
    entry_states: Optional[Set[str]] = None,
) -> Dict[int, FrozenSet[str]]:
    uni = frozenset(universe)
    ld = LocalDefs(g.fn)
    inset: Dict[int, Set[str]] = {n.id: set() for n in g.nodes}
    inset[g.entry.id] = set(entry_states if entry_states is not None else uni)
    work = [g.entry.id]
    visited: Set[int] = set()
    while work:
        i = work.pop()
        n = g.nodes[i]
        cur = set(inset[i])
        first = i not in visited
        visited.add(i)
        # transfer
        out = cur
        v = store_of_field(n, subject, field_names)
        if v is not None:
            m = enum_member(v)
            out = {m[1]} if (m and m[1] in uni) else set(uni)
        elif any(havoc_call(c) for c in node_calls(n)):
            out = set(uni)
        for e in g.succ[i]:
            eo = set(out)
            es = edge_state_set(e, field_names, universe, ld)
            if es is not None and es[0] == subject:
                # a condition node that *also* havocs (call in condition) is not narrowed
                eo = eo & set(es[1])
            before = inset[e.dst.id]
            if not eo <= before or (e.dst.id not in visited):
                inset[e.dst.id] = before | eo
                work.append(e.dst.id)
    return {k: frozenset(v) for k, v in inset.items()}
