"""E3 (second half) - effect summaries: does a function store to, or mutate, anything that outlives the call?

Logging (`sys_log`, `_LOGGER`, `logger`, `warnings`, `print`) is exempt.  The summary is closed over resolved callees
to a stated depth; unresolved callees are *listed*, never assumed pure or impure.
"""
from __future__ import annotations

import ast
from dataclasses import dataclass, field
from typing import Dict, List, Optional, Set, Tuple

from .astutil import MUTATING_METHODS, attr_chain, call_name, store_targets, unparse
from .index import ClassInfo, FuncInfo, Index
from .inventory import own_nodes
from .types import func_types

LOG_ROOTS = {"_LOGGER", "logger", "warnings", "logging"}
LOG_ATTRS = {"sys_log", "logger", "_logger"}
PURE_BUILTINS = {
    "all", "any", "len", "isinstance", "issubclass", "str", "int", "float", "bool", "getattr", "hasattr", "list",
    "dict", "set", "tuple", "sorted", "min", "max", "sum", "abs", "repr", "type", "enumerate", "zip", "range", "iter",
    "next", "frozenset", "round", "print", "super", "format", "id", "callable", "reversed", "map", "filter",
    "IPv4Address", "IPv4Network", "ip_address",
}


def is_logging_call(call: ast.Call) -> bool:
    ch = attr_chain(call.func)
    if not ch:
        return False
    if ch[0] in LOG_ROOTS or ch[0] == "print":
        return True
    return any(p in LOG_ATTRS for p in ch[:-1])


@dataclass
class Effects:
    stores: List[str] = field(default_factory=list)  # "where: description"
    unresolved: List[str] = field(default_factory=list)
    visited: int = 0

    @property
    def pure(self) -> bool:
        return not self.stores


def _fresh_locals(fn: FuncInfo) -> Set[str]:
    """Locals that hold objects created in this call (constructor results, literals, comprehensions)."""
    out: Set[str] = set()
    if isinstance(fn.node, ast.Lambda):
        return out
    params = {a.arg for a in fn.node.args.args + fn.node.args.kwonlyargs}
    for n in ast.walk(fn.node):
        if isinstance(n, ast.Assign) and len(n.targets) == 1 and isinstance(n.targets[0], ast.Name):
            v = n.value
            if isinstance(v, (ast.List, ast.Dict, ast.Set, ast.ListComp, ast.DictComp, ast.SetComp, ast.Tuple, ast.Constant,
                              ast.JoinedStr)):
                out.add(n.targets[0].id)
            elif isinstance(v, ast.Call) and isinstance(v.func, ast.Name) and (v.func.id[:1].isupper() or v.func.id in
                                                                                  ("list", "dict", "set", "PrettyTable")):
                out.add(n.targets[0].id)
    return out - params


def resolve_callees(ix: Index, fn: FuncInfo, call: ast.Call) -> Tuple[List[FuncInfo], str]:
    """Possible targets of a call by typed receiver + class-hierarchy analysis; ('', reason) when unresolved."""
    f = call.func
    ft = func_types(ix, fn)
    owner = ft.owner
    if isinstance(f, ast.Name):
        if f.id in fn.module.functions:
            return [fn.module.functions[f.id]], ""
        # nested def in scope
        p: Optional[FuncInfo] = fn
        while p is not None:
            for nf in ix.nested_funcs(p):
                if nf.name == f.id:
                    return [nf], ""
            p = p.parent
        imp = fn.module.imports.get(f.id)
        if imp:
            modname, _, nm = imp.rpartition(".")
            m = ix.modules.get(modname)
            if m and nm in m.functions:
                return [m.functions[nm]], ""
            c = ix.classes.get(imp)
            if c is not None:
                init = ix.find_method(c, "__init__")
                return ([init] if init else []), ""
        c2 = ix._resolve_expr_to_class(f, fn.module, owner)
        if c2 is not None:
            init = ix.find_method(c2, "__init__")
            return ([init] if init else []), ""
        return [], "builtin-or-external" if f.id in PURE_BUILTINS else f"unresolved name {f.id}"
    if isinstance(f, ast.Attribute):
        # super().m()
        if isinstance(f.value, ast.Call) and isinstance(f.value.func, ast.Name) and f.value.func.id == "super" and owner:
            mro = ix.mro(owner)
            # the class in which fn is defined
            defcls = fn.cls or owner
            try:
                start = mro.index(defcls) + 1
            except ValueError:
                start = 1
            # conservative: all subclasses' MROs could put other classes next; use the static MRO of the owner
            for c in mro[start:]:
                if f.attr in c.methods:
                    return [c.methods[f.attr]], ""
            return [], "super-external"
        rc, sh = ft.expr_type(f.value)
        if rc is not None and sh in ("scalar", "class"):
            targets: List[FuncInfo] = []
            m = ix.find_method(rc, f.attr)
            if m is not None:
                targets.append(m)
            for sub in ix.subclasses(rc):
                if f.attr in sub.methods and sub.methods[f.attr] not in targets:
                    targets.append(sub.methods[f.attr])
            if targets:
                return targets, ""
            return [], f"no method {f.attr} on {rc.short}"
        return [], f"untyped receiver {unparse(f.value)[:40]}.{f.attr}"
    return [], "dynamic callee"


def effects_of(ix: Index, fn: FuncInfo, depth: int = 4, _seen: Optional[Set[int]] = None, eff: Optional[Effects] = None,
               allow_self_attrs: Optional[Set[str]] = None) -> Effects:
    eff = eff or Effects()
    _seen = _seen if _seen is not None else set()
    if id(fn) in _seen:
        return eff
    _seen.add(id(fn))
    eff.visited += 1
    fresh = _fresh_locals(fn)
    node = fn.node
    for n, lam in own_nodes(node):
        if isinstance(n, (ast.Assign, ast.AugAssign, ast.AnnAssign, ast.Delete)):
            for tgt, val, kind in store_targets(n):
                if isinstance(tgt, ast.Name):
                    continue
                ch = attr_chain(tgt)
                root = ch[0] if ch else None
                if root in fresh:
                    continue
                if allow_self_attrs and ch and len(ch) == 2 and ch[0] == "self" and ch[1] in allow_self_attrs:
                    continue
                eff.stores.append(f"{fn.path}:{n.lineno} {fn.short}: store to {unparse(tgt)[:60]}")
        elif isinstance(n, ast.Call):
            if is_logging_call(n):
                continue
            f = n.func
            if isinstance(f, ast.Attribute) and f.attr in MUTATING_METHODS:
                ch = attr_chain(f.value)
                root = ch[0] if ch else None
                rc, sh = func_types(ix, fn).expr_type(f.value)
                # `.pop/.update/...` on a fresh local container is not an effect; on a typed sim object it is a method call
                if root in fresh:
                    continue
                if rc is not None and sh == "scalar" and ix.find_method(rc, f.attr) is not None:
                    pass  # a real method named like a container op: analysed as a callee below
                else:
                    eff.stores.append(f"{fn.path}:{n.lineno} {fn.short}: mutating call {unparse(n)[:70]}")
                    continue
            if depth <= 0:
                continue
            targets, why = resolve_callees(ix, fn, n)
            if not targets:
                if why not in ("builtin-or-external",):
                    nm = call_name(n)
                    if nm not in PURE_BUILTINS:
                        eff.unresolved.append(f"{fn.path}:{n.lineno} {unparse(n.func)[:50]} ({why})")
                continue
            for t in targets:
                effects_of(ix, t, depth - 1, _seen, eff)
    return eff
