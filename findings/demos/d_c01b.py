"""C01 R1.5: handlers that hand a non-bool to RequestResponse.from_bool -> apply_request returns None / raises."""
from common import *
from primaite.simulator.sim_container import Simulation
from primaite.simulator.network.hardware.nodes.network.wireless_router import WirelessRouter
from primaite.simulator.network.airspace import AirSpace

net, c, s, link = two_hosts()
sim = Simulation(network=net)
wr = WirelessRouter.from_config(config={"type": "wireless-router", "hostname": "wr", "start_up_duration": 0,
      "router_interface": {"ip_address": "192.168.2.1", "subnet_mask": "255.255.255.0"},
      "wireless_access_point": {"ip_address": "192.168.3.1", "subnet_mask": "255.255.255.0", "frequency": "WIFI_2_4"}},
      airspace=net.airspace)
net.add_node(wr); wr.power_on()
print("interfaces:", {k: type(v).__name__ for k, v in wr.network_interface.items()})
for verb in ("disable", "enable"):
    r = sim.apply_request(["network", "node", "wr", "network_interface", 1, verb])
    print(f"wireless AP {verb} ->", r)
try:
    r = sim.apply_request(["network", "node", "server", "service", "user-session-manager", "remote_login", "admin", "admin", "192.168.1.2"])
    print("remote_login ->", r)
except Exception as e:
    print("remote_login raised", type(e).__name__, e)
