"""C20: (1) simulation defaults key typo; (2) network_interfaces numbering follows file order; (3) firewall declared OFF is switched on."""
import _cleanup  # noqa: F401 (removes this process's session directory at exit)
import copy, warnings, yaml
warnings.filterwarnings("ignore")
from primaite.game.game import PrimaiteGame
base = yaml.safe_load(open("/repo/tests/assets/configs/basic_firewall.yaml"))

# (1) defaults
cfg = copy.deepcopy(base); cfg["defaults"] = {"node_start_up_duration": 5}
try:
    PrimaiteGame.from_config(cfg); print("(1) defaults.node_start_up_duration accepted")
except Exception as e:
    print("(1) a scenario with defaults.node_start_up_duration fails to load:", type(e).__name__, e)

# (2) extra NICs declared under keys 2 and 3, in two file orders
def nic_ips(order):
    cfg = copy.deepcopy(base)
    node = next(n for n in cfg["simulation"]["network"]["nodes"] if n["type"] in ("computer", "server"))
    nics = {2: {"ip_address": "10.0.2.2", "subnet_mask": "255.255.255.0"}, 3: {"ip_address": "10.0.3.3", "subnet_mask": "255.255.255.0"}}
    node["network_interfaces"] = {k: nics[k] for k in order}
    g = PrimaiteGame.from_config(cfg)
    n = g.simulation.network.get_node_by_hostname(node["hostname"])
    return {num: str(nic.ip_address) for num, nic in n.network_interface.items()}
print("(2) keys written 2,3 ->", nic_ips([2, 3]))
print("(2) keys written 3,2 ->", nic_ips([3, 2]))

# (3) firewall declared OFF
cfg = copy.deepcopy(base)
fw = next(n for n in cfg["simulation"]["network"]["nodes"] if n["type"] == "firewall")
fw["operating_state"] = "OFF"
g = PrimaiteGame.from_config(cfg)
n = g.simulation.network.get_node_by_hostname(fw["hostname"])
states = [n.operating_state.name]
for t in range(4):
    g.simulation.apply_timestep(t + 1); states.append(n.operating_state.name)
print("(3) firewall declared operating_state OFF: state at load and over 4 ticks:", states)

