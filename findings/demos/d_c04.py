import warnings; warnings.filterwarnings("ignore")
import yaml, copy
from primaite.session.environment import PrimaiteGymEnv
cfg = yaml.safe_load(open("/repo/tests/assets/configs/data_manipulation.yaml"))
cfg["io_settings"] = {"save_agent_actions": False, "save_step_metadata": False, "save_pcap_logs": False, "save_sys_logs": False}
envA = PrimaiteGymEnv(copy.deepcopy(cfg))          # capture_nmne: true
nicA = envA.game.simulation.network.get_node_by_hostname("client_1").network_interface[1]
print("A before B: capture =", nicA.nmne_config.capture_nmne, "| 'nmne' in state:", "nmne" in nicA.describe_state())
c2 = copy.deepcopy(cfg); c2["simulation"]["network"]["nmne_config"]["capture_nmne"] = False
for a in c2["agents"]:
    pass
try:
    envB = PrimaiteGymEnv(c2)
except Exception as e:
    print("B construction raised", type(e).__name__, "(C02 finding) - class attr already overwritten")
print("A after  B: capture =", nicA.nmne_config.capture_nmne, "| 'nmne' in state:", "nmne" in nicA.describe_state())
try:
    envA.step(0); print("A step ok")
except Exception as e:
    print("A step raised", type(e).__name__, str(e)[:80])
