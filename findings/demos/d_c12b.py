"""C12 R12.7: a reset of a node whose shut_down_duration is 0 never restarts it.

Node.reset() sets is_resetting and calls power_off(); with shut_down_duration 0 power_off() goes straight to OFF, but the automatic
restart is only issued by apply_timestep on the SHUTTING_DOWN -> OFF edge, which is never taken: the node stays OFF with
is_resetting set for ever.  C12: "a reset being a shutdown followed by an automatic start", "instantaneous when the duration is 0".
Exit 0 = every node is ON again within start_up_duration + 2 ticks of the reset; AssertionError otherwise.
"""
from common import *
from primaite.simulator.network.hardware.node_operating_state import NodeOperatingState as S

problems = []
for down, up in ((0, 0), (0, 2), (2, 0), (2, 2)):
    net, c, s, link = two_hosts()
    s.config.shut_down_duration, s.config.start_up_duration = down, up
    s.reset()
    states = [s.operating_state.name]
    for t in range(down + up + 3):
        s.apply_timestep(t)
        states.append(s.operating_state.name)
    print(f"shut_down_duration={down} start_up_duration={up}: {' -> '.join(states)} (is_resetting={s.config.is_resetting})")
    if s.operating_state != S.ON or s.config.is_resetting:
        problems.append(f"reset with shut_down_duration={down}, start_up_duration={up} left the node {s.operating_state.name}, is_resetting={s.config.is_resetting}")
for p in problems:
    print("VIOLATION:", p)
assert not problems
print("OK")
