from common import *
net,c,s,link = two_hosts()
fs = c.file_system
fs.create_file(folder_name="f", file_name="a.txt")
folder = fs.get_folder("f")
fs.delete_file("f","a.txt")
print("after delete: live", [x.name for x in folder.files.values()], "deleted", [x.name for x in folder.deleted_files.values()])
fs.restore_file("f","a.txt")
print("after restore: live", [x.name for x in folder.files.values()], "deleted", [x.name for x in folder.deleted_files.values()])
# create existing via request
r = c.apply_request(["file_system","create","file","f","a.txt",False])
print("create existing force=False ->", r)
