from common import *
from primaite.simulator.sim_container import Simulation
net,c,s,link = two_hosts(shut_down_duration=0)
sim = Simulation(network=net)
# stop a service then power node off: mask vs execution for "service start"
req = ["network","node","computer","service","dns-client","start"]
c.software_manager.software["dns-client"].stop()
print("node ON : check_valid", sim._request_manager.check_valid(req, {}), "| call ->", sim.apply_request(req).status)
c.software_manager.software["dns-client"].stop()
c.power_off()
print("state", c.operating_state.name, "nic enabled:", c.network_interface[1].enabled)
print("node OFF: check_valid", sim._request_manager.check_valid(req, {}), "| call ->", sim.apply_request(req).status)
# traffic while OFF with zero shut_down_duration
print("ping OFF computer from server:", s.ping("192.168.1.2"))
