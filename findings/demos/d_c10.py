"""C10 R10.4: a NON-sticky webpage-unavailable-penalty does not return to 0 on steps without a browser request.

WebpageUnavailablePenalty.calculate only leaves early on `not request_attempted and sticky`; with sticky=False and no
request it falls through to the outcome ladder and re-reads the *old* last entry of the browser history, so the
"non-sticky" component keeps paying +1 (or -1) for an event that happened steps ago.
(test_sticky_rewards hides this by emptying the browser history by hand before the do-nothing step.)
"""
import _cleanup  # removes the session directory this run creates
import os, yaml, primaite
from primaite.game.game import PrimaiteGame

cfg = yaml.safe_load(open(os.path.join(os.path.dirname(primaite.__file__), 'config/_package_data/data_manipulation.yaml')))
cfg["io_settings"] = {"save_agent_actions": False, "save_step_metadata": False, "save_pcap_logs": False, "save_sys_logs": False}
green = next(a for a in cfg["agents"] if a["ref"] == "client_2_green_user")
green["reward_function"] = {"reward_components": [
    {"type": "webpage-unavailable-penalty", "weight": 1.0, "options": {"node_hostname": "client_2", "sticky": False}}]}
cfg["agents"] = [green]                      # no red/blue agents: nothing else touches the network
game = PrimaiteGame.from_config(cfg)
agent = game.agents["client_2_green_user"]
comp = agent.reward_function.reward_components[0][0]
print("component:", type(comp).__name__, "sticky =", comp.config.sticky)
plan = [1, 0, 0, 1, 0, 0, 0]                 # 1 = execute web-browser, 0 = do-nothing
bad = 0
for want in plan:
    agent.config.agent_settings.action_probabilities = {i: (1.0 if i == want else 0.0) for i in range(3)}
    game.step()
    h = agent.history[-1]
    hist = game.get_sim_state()["network"]["nodes"]["client_2"]["applications"]["web-browser"]["history"]
    flag = ""
    if h.action == "do-nothing" and agent.reward_function.current_reward != 0:
        bad += 1
        flag = "   <-- no request this step, component is NOT sticky, reward should be 0"
    print(f"step {game.step_counter}: action={h.action:24s} response={h.response.status:8s} browser history={[x['outcome'] for x in hist]} "
          f"reward={agent.reward_function.current_reward:+.1f}{flag}")
print("total_reward:", agent.reward_function.total_reward, "| steps with a wrong non-zero reward:", bad)
