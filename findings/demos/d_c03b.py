"""C03 R3.2: Frame.size depends on the decimal width of the random ICMP identifier (and on the timestamps)."""
from common import *
from primaite.simulator.network.protocols.icmp import ICMPPacket
from primaite.simulator.network.transmission.data_link_layer import Frame, EthernetHeader
from primaite.simulator.network.transmission.network_layer import IPPacket
from primaite.utils.validation.ip_protocol import PROTOCOL_LOOKUP
def mk(ident):
    return Frame(ethernet=EthernetHeader(src_mac_addr="aa:bb:cc:dd:ee:ff", dst_mac_addr="11:22:33:44:55:66"),
                 ip=IPPacket(src_ip_address="192.168.1.2", dst_ip_address="192.168.1.3", protocol=PROTOCOL_LOOKUP["ICMP"]),
                 icmp=ICMPPacket(identifier=ident), payload="x"*32)
print("identifier 7 ->", mk(7).size, "bytes ; identifier 54321 ->", mk(54321).size, "bytes")
