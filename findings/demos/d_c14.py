"""C14 triage demonstration (runtime; not a check).

R14.4  DataManipulationBot.apply_timestep is `pass` and never reaches Software.apply_timestep, so the FIXING countdown of
       a data-manipulation-bot never runs: after `fix` it stays FIXING forever (fixing_duration = 2), while any other
       application returns to GOOD after the configured duration.
"""
from common import *
from primaite.simulator.system.applications.red_applications.data_manipulation_bot import DataManipulationBot
from primaite.simulator.system.applications.red_applications.ransomware_script import RansomwareScript

net, c, s, link = two_hosts()
for cls, name in ((RansomwareScript, "ransomware-script"), (DataManipulationBot, "data-manipulation-bot")):
    c.software_manager.install(cls)
    app = c.software_manager.software[name]
    app.run()
    r = c.apply_request(["application", name, "fix"])
    hist = [app.health_state_actual.name]
    for t in range(6):
        c.apply_timestep(t)
        hist.append(app.health_state_actual.name)
    print(f"{name}: fix -> {r.status}; fixing_duration={app.config.fixing_duration}; health over 6 ticks: {hist}; "
          f"_fixing_countdown={app._fixing_countdown}")
