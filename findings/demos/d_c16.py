"""C16 / R16.7 - UserSessionManager._logout_user returns after the first matching remote session.

A user holds two remote terminal sessions and a local session on the server.  The password is changed (which is
supposed to end the user's sessions).  Only the first remote session is closed: the second remote connection still
executes a command on the server (a folder appears) and the local session is still logged in.
Triage evidence only - not a check.  Run: cd /verif/findings/demos && /venv/bin/python d_c16.py
"""
import _cleanup  # noqa: F401  (removes the session directory this process may create)
from ipaddress import IPv4Address

from common import two_hosts

net, client, server, link = two_hosts()
term = client.software_manager.software["terminal"]
conn_a = term.login("admin", "admin", ip_address=IPv4Address("192.168.1.3"))
conn_b = term.login("admin", "admin", ip_address=IPv4Address("192.168.1.3"))
usm = server.user_session_manager
usm.local_login("admin", "admin")
print("before: remote sessions on server =", len(usm.remote_sessions), "| local user =",
      usm.describe_state()["current_local_user"])

changed = server.user_manager.change_user_password("admin", "admin", "a-new-secret")
print("change_user_password ->", changed)
print("after : remote sessions on server =", len(usm.remote_sessions), "| local user =",
      usm.describe_state()["current_local_user"], " (expected 0 and None)")

for name, conn in (("first ", conn_a), ("second", conn_b)):
    folder = f"made_by_{name.strip()}"
    sent = conn.execute(["file_system", "create", "folder", folder])
    print(f"{name} connection: is_active={conn.is_active} execute->{sent} "
          f"folder created on server: {server.file_system.get_folder(folder) is not None}")
print("old password still opens a new session:", usm.remote_login("admin", "admin", IPv4Address("192.168.1.2")) is not None)
