from common import *
from primaite.simulator.network.hardware.nodes.network.switch import Switch
net = Network()
sw = Switch.from_config(config={"type":"switch","hostname":"sw","num_ports":6,"start_up_duration":0}); sw.power_on()
hosts=[]
for i in range(2,6):
    h = Computer.from_config(config={"type":"computer","hostname":f"pc{i}","ip_address":f"192.168.1.{i}","subnet_mask":"255.255.255.0","start_up_duration":0})
    h.power_on(); net.connect(h.network_interface[1], sw.network_interface[i-1]); hosts.append(h)
r = hosts[0].apply_request(["application","nmap","ping_scan",{"target_ip_address":"192.168.1.0/29","show":False}])
print(r.status, r.data)
