import warnings; warnings.filterwarnings("ignore")
import yaml, copy
from primaite.session.environment import PrimaiteGymEnv
cfg = yaml.safe_load(open("/repo/tests/assets/configs/data_manipulation.yaml"))
cfg["io_settings"] = {"save_agent_actions": False, "save_step_metadata": False, "save_pcap_logs": False, "save_sys_logs": False}
print("nmne_config:", cfg["simulation"]["network"].get("nmne_config"))
c2 = copy.deepcopy(cfg); c2["simulation"]["network"]["nmne_config"]["capture_nmne"] = False
env = PrimaiteGymEnv(c2)
obs, _ = env.reset()
print("flatten:", env.agent.flatten_obs)
try:
    print("contains:", env.observation_space.contains(obs))
except Exception as e:
    print("contains raised", type(e).__name__, e)
try:
    o,r,t,tr,i = env.step(0); print("step ok; contains:", env.observation_space.contains(o))
except Exception as e:
    print("step raised", type(e).__name__, str(e)[:100])
# C04: second env with capture on changes class-level config seen by first env's NICs
from primaite.simulator.network.hardware.base import NetworkInterface
print("env A capture flag now:", NetworkInterface.nmne_config.capture_nmne)
envB = PrimaiteGymEnv(copy.deepcopy(cfg))
nicA = next(iter(env.game.simulation.network.nodes.values())).network_interface[1]
print("after building env B, env A NIC sees capture_nmne =", nicA.nmne_config.capture_nmne)
