"""C07 R7.3: add_rule accepts position max_acl_rules-1 although the list has max_acl_rules-1 slots -> IndexError."""
from common import *
from primaite.simulator.network.hardware.nodes.network.router import Router, ACLAction
from primaite.simulator.sim_container import Simulation
net = Network()
r = Router.from_config(config={"type":"router","hostname":"r1","num_ports":2,"start_up_duration":0})
net.add_node(r); r.power_on()
sim = Simulation(network=net)
print("max_acl_rules", r.acl.max_acl_rules, "slots", len(r.acl.acl))
try:
    print(sim.apply_request(["network","node","r1","acl","add_rule","DENY","ALL","ALL","NONE","ALL","ALL","NONE","ALL",24]))
except Exception as e:
    print("add_rule at position 24 raised", type(e).__name__, e)
try:
    print("remove_rule 24:", sim.apply_request(["network","node","r1","acl","remove_rule",24]))
except Exception as e:
    print("remove_rule at position 24 raised", type(e).__name__, e)
