"""C13 triage demonstrations (runtime; not checks): every instance that ./check C13 reports is shown against the real code.

R13.1  DataManipulationBot.apply_timestep is `pass` (no super()): an installation never completes.
R13.2  Application._can_perform_network_action skips the RUNNING test: a CLOSED C2 server 'sends' commands.
R13.2  receive() implementations without a running gate: the stopped/closed software still handles a payload that
       arrives over the real link (ICMP, RouterICMP, NMAP, Terminal, NTPServer, NTPClient, DNSClient, WebBrowser,
       C2Beacon, C2Server).  Where the node-level open-port test would drop the frame, the port is kept open the way the
       shipped configurations do it: by another *running* package that lists it in `listen_on_ports` (the C2 suite
       listens on 80/21/53 by default; uc7_config.yaml sets listen_on_ports explicitly).
R13.4  _software_class_to_name_map is never written (also in d_misc.py).
R13.4  install overwrites port_protocol_mapping[(port, protocol)] of an installed package that shares the endpoint
       (ntp-client/ntp-server, dns-client/dns-server, ...): after install + uninstall of the second one the first is
       RUNNING with its port closed and no dispatch entry.
"""
from common import *
from datetime import datetime
from ipaddress import IPv4Address

from primaite.simulator.network.hardware.nodes.network.router import Router
from primaite.simulator.network.protocols.dns import DNSPacket, DNSReply, DNSRequest
from primaite.simulator.network.protocols.http import HttpResponsePacket, HttpStatusCode
from primaite.simulator.network.protocols.ntp import NTPPacket
from primaite.simulator.system.applications.red_applications.c2.abstract_c2 import C2Command
from primaite.simulator.system.applications.red_applications.c2.c2_beacon import C2Beacon
from primaite.simulator.system.applications.red_applications.c2.c2_server import C2Server
from primaite.simulator.system.applications.red_applications.data_manipulation_bot import DataManipulationBot  # noqa: F401 (registers the type)
from primaite.simulator.system.applications.red_applications.ransomware_script import RansomwareScript  # noqa: F401
from primaite.simulator.system.services.dns.dns_client import DNSClient
from primaite.simulator.system.services.ftp.ftp_server import FTPServer
from primaite.simulator.system.services.ntp.ntp_server import NTPServer
from primaite.utils.validation.ip_protocol import PROTOCOL_LOOKUP

C_IP, S_IP = IPv4Address("192.168.1.2"), IPv4Address("192.168.1.3")


def sw(node, name):
    return node.software_manager.software[name]


print("--- R13.1 DataManipulationBot.apply_timestep does not call super(): install never completes")
net, c, s, link = two_hosts()
for name in ("ransomware-script", "data-manipulation-bot"):
    r = c.apply_request(["software_manager", "application", "install", name])
    app = sw(c, name)
    hist = [app.operating_state.name]
    for t in range(6):
        c.apply_timestep(t)
        hist.append(app.operating_state.name)
    print(f"  install {name}: {r.status}; install_duration={app.install_duration}; state over 6 ticks: {hist}")

print("--- R13.2 Application._can_perform_network_action ignores the operating state")
net, c, s, link = two_hosts()
s.software_manager.install(C2Server)
c.software_manager.install(C2Beacon)
srv, bcn = sw(s, "c2-server"), sw(c, "c2-beacon")
srv.run()
bcn.configure(c2_server_ip_address=str(S_IP), keep_alive_frequency=5)
bcn.establish()
mk = lambda n: {"commands": [["file_system", "create", "folder", n]], "username": "admin", "password": "admin", "ip_address": None}  # noqa
r = srv.send_command(C2Command.TERMINAL, command_options=mk("one"))
print("  running server: send_command ->", r.status, "| folder 'one' on the beacon host:", c.file_system.get_folder("one") is not None)
srv.close()
print(f"  server {srv.operating_state.name}: _can_perform_action()={srv._can_perform_action()} "
      f"_can_perform_network_action()={srv._can_perform_network_action()}")
r = srv.send_command(C2Command.TERMINAL, command_options=mk("two"))
print("  closed server: send_command ->", r.status, "(stale output of the previous command) | folder 'two':",
      c.file_system.get_folder("two") is not None)
exf = {"username": "admin", "password": "admin", "ip_address": None, "target_ip_address": str(C_IP), "target_file_name": "x",
       "target_folder_name": "y"}
before = "ftp-server" in s.software_manager.software
r = srv.send_command(C2Command.DATA_EXFILTRATION, command_options=exf)
print("  closed server: exfiltration command ->", r.status, "| ftp-server installed on its host by the closed app:", before, "->",
      "ftp-server" in s.software_manager.software)

print("--- R13.2 ICMP / RouterICMP: a stopped ICMP service still answers echo requests")
net, c, s, link = two_hosts()
sw(s, "icmp").stop()
print("  host icmp", sw(s, "icmp").operating_state.name, "| ping ->", c.ping(str(S_IP)))
net = Network()
rt = Router.from_config(config={"type": "router", "hostname": "r", "num_ports": 2, "start_up_duration": 0})
rt.power_on()
rt.configure_port(1, "192.168.1.1", "255.255.255.0")
pc = Computer.from_config(config={"type": "computer", "hostname": "pc", "ip_address": "192.168.1.2", "subnet_mask": "255.255.255.0",
                                  "default_gateway": "192.168.1.1", "start_up_duration": 0})
pc.power_on()
net.connect(pc.network_interface[1], rt.network_interface[1])
rt.enable_port(1)
sw(rt, "icmp").stop()
print("  router icmp", sw(rt, "icmp").operating_state.name, "| ping router ->", pc.ping("192.168.1.1"))

print("--- R13.2 NMAP: a closed NMAP on the target still answers a port scan")
net, c, s, link = two_hosts()
req = ["application", "nmap", "port_scan", {"target_ip_address": str(S_IP), "target_port": 22, "target_protocol": "tcp", "show": False}]
sw(s, "nmap").close()
r = c.apply_request(req)
print("  target nmap", sw(s, "nmap").operating_state.name, "| scan result ->", r.status, r.data)

print("--- R13.2 Terminal / NTPServer: stopped services behind a port that another running service listens on")
net, c, s, link = two_hosts()
s.software_manager.install(FTPServer, software_config=FTPServer.ConfigSchema(type="ftp-server", listen_on_ports={22, 123}))
s.software_manager.install(NTPServer)
sw(s, "terminal").stop()
sw(s, "ntp-server").stop()
print("  server: terminal", sw(s, "terminal").operating_state.name, "| ntp-server", sw(s, "ntp-server").operating_state.name)
conn = sw(c, "terminal").login(username="admin", password="admin", ip_address=S_IP)
print("  remote login handled by the STOPPED terminal ->", type(conn).__name__, "| remote sessions on the server:",
      len(s.user_session_manager.remote_sessions))
ntpc = sw(c, "ntp-client")
ntpc.configure(S_IP) if hasattr(ntpc, "configure") else setattr(ntpc.config, "ntp_server_ip", S_IP)
ntpc.time = None
ntpc.request_time()
print("  time served by the STOPPED ntp-server ->", ntpc.time)

print("--- R13.2 WebBrowser / DNSClient / NTPClient: stopped clients consume replies (port kept open by a running listener)")
net, c, s, link = two_hosts()
c.software_manager.install(C2Beacon)
sw(c, "c2-beacon").run()  # listens on 80/21/53 by default
c.software_manager.install(FTPServer, software_config=FTPServer.ConfigSchema(type="ftp-server", listen_on_ports={123}))
wb, dns, ntp = sw(c, "web-browser"), sw(c, "dns-client"), sw(c, "ntp-client")
wb.close()
dns.stop()
ntp.stop()
print("  client: web-browser", wb.operating_state.name, "| dns-client", dns.operating_state.name, "| ntp-client", ntp.operating_state.name)
sm = s.software_manager
sm.send_payload_to_session_manager(payload=HttpResponsePacket(status_code=HttpStatusCode.OK), dest_ip_address=C_IP, dest_port=80)
print("  closed web-browser latest_response ->", wb.latest_response)
sm.send_payload_to_session_manager(
    payload=DNSPacket(dns_request=DNSRequest(domain_name_request="bank.example"), dns_reply=DNSReply(domain_name_ip_address=IPv4Address("6.6.6.6"))),
    dest_ip_address=C_IP, dest_port=53)
print("  stopped dns-client cache ->", dns.dns_cache)
sm.send_payload_to_session_manager(payload=NTPPacket().generate_reply(datetime(1999, 1, 1)), dest_ip_address=C_IP, src_port=123,
                                   dest_port=123, ip_protocol=PROTOCOL_LOOKUP["UDP"])
print("  stopped ntp-client time ->", ntp.time)

print("--- R13.2 C2Beacon / C2Server: closed C2 applications still act on C2 packets (port 80 is open: web-browser runs)")
net, c, s, link = two_hosts()
s.software_manager.install(C2Server)
c.software_manager.install(C2Beacon)
srv, bcn = sw(s, "c2-server"), sw(c, "c2-beacon")
srv.run()
bcn.configure(c2_server_ip_address=str(S_IP), keep_alive_frequency=5)
bcn.establish()
bcn.close()
r = srv.send_command(C2Command.TERMINAL, command_options=mk("made_while_closed"))
print("  beacon", bcn.operating_state.name, "| command executed on its host anyway:", c.file_system.get_folder("made_while_closed") is not None)
net, c, s, link = two_hosts()
s.software_manager.install(C2Server)
c.software_manager.install(C2Beacon)
srv, bcn = sw(s, "c2-server"), sw(c, "c2-beacon")
bcn.configure(c2_server_ip_address=str(S_IP), keep_alive_frequency=5)
bcn.establish()
print("  server", srv.operating_state.name, "| accepted the keep-alive: c2_connection_active =", srv.c2_connection_active,
      "remote =", srv.c2_remote_connection)

print("--- R13.4 _software_class_to_name_map is consulted and popped but never written")
net, c, s, link = two_hosts()
before = len(c.services)
c.software_manager.install(DNSClient)
print("  services before/after re-installing dns-client:", before, len(c.services), "| guard map:", c.software_manager._software_class_to_name_map)
c.software_manager.uninstall("dns-client")
print("  after uninstall: in software:", "dns-client" in c.software_manager.software, "| still in describe_state()['services']:",
      "dns-client" in c.describe_state()["services"])

print("--- R13.4 SoftwareManager.install overwrites the (port, protocol) dispatch entry of an installed package")
net, c, s, link = two_hosts()
s.software_manager.install(NTPServer)
ntpc = sw(c, "ntp-client")
ntpc.configure(S_IP)
ntpc.request_time()
print("  baseline: ntp-client on the computer gets the time:", ntpc.time is not None)
c.software_manager.install(NTPServer)  # same endpoint (123/udp) as the pre-installed ntp-client
print("  ntp-server installed next to it: dispatch entry (123, udp) ->", type(c.software_manager.port_protocol_mapping[(123, "udp")]).__name__)
c.software_manager.uninstall("ntp-server")
print("  after uninstalling ntp-server: ntp-client", ntpc.operating_state.name, "| 123 in get_open_ports():",
      123 in c.software_manager.get_open_ports(), "| ntp-client in the dispatch table:",
      ntpc in c.software_manager.port_protocol_mapping.values())
ntpc.time = None
ntpc.request_time()
print("  ntp-client gets the time:", ntpc.time is not None)
# by-product while both are installed: replies for the client are dispatched to the local NTPServer, which answers them
net, c, s, link = two_hosts()
s.software_manager.install(NTPServer)
c.software_manager.install(NTPServer)
sw(c, "ntp-client").configure(S_IP)
try:
    sw(c, "ntp-client").request_time()
    print("  client and server on one node: request_time returned")
except RecursionError:
    print("  client and server on one node: the two NTP servers answer each other's replies -> RecursionError out of request_time()")
