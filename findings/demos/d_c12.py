from common import *
from primaite.simulator.network.hardware.nodes.network.router import Router
from primaite.simulator.sim_container import Simulation
net = Network()
r = Router.from_config(config={"type":"router","hostname":"r1","num_ports":2,"start_up_duration":0,"shut_down_duration":3})
net.add_node(r); r.power_on()
sim = Simulation(network=net)
r.power_off()
print("router state", r.operating_state.name)
req = ["network","node","r1","acl","add_rule","DENY","ALL","ALL","NONE","ALL","ALL","NONE","ALL",1]
print("acl add_rule on non-ON router ->", sim.apply_request(req).status, "| rule@1:", r.acl.acl[1] is not None)
print("check_valid:", sim._request_manager.check_valid(req, {}))
