import warnings; warnings.filterwarnings("ignore")
from primaite.simulator.network.container import Network
from primaite.simulator.network.hardware.nodes.host.computer import Computer
from primaite.simulator.network.hardware.nodes.host.server import Server
def two_hosts(bw=100, **extra):
    net = Network()
    c = Computer.from_config(config={"type":"computer","hostname":"computer","ip_address":"192.168.1.2","subnet_mask":"255.255.255.0","default_gateway":"192.168.1.1","start_up_duration":0, **extra})
    c.power_on()
    s = Server.from_config(config={"type":"server","hostname":"server","ip_address":"192.168.1.3","subnet_mask":"255.255.255.0","default_gateway":"192.168.1.1","start_up_duration":0, **extra})
    s.power_on()
    link = net.connect(c.network_interface[1], s.network_interface[1], bandwidth=bw)
    return net, c, s, link
