from common import *
import inspect
from primaite.game.agent.scripted_agents.random_agent import RandomAgent
print("RandomAgent.get_action signature:", inspect.signature(RandomAgent.get_action))
try:
    RandomAgent.get_action(object.__new__(RandomAgent), {}, timestep=0)
except TypeError as e: print("TypeError:", e)
except AttributeError: print("signature accepted (uninitialised demo object has no action_manager)")
# nmap uninstalled + port scan payload arriving on an open port
net,c,s,link = two_hosts()
s.software_manager.uninstall("nmap")
try:
    r = c.apply_request(["application","nmap","port_scan",{"target_ip_address":"192.168.1.3","target_port":22,"target_protocol":"tcp","show":False}])
    print("port scan ->", r.status, r.data)
except Exception as e:
    print("port scan raised", type(e).__name__, e)
# stopped ICMP still answers?
net,c,s,link = two_hosts()
s.software_manager.software["icmp"].stop()
print("icmp state on server:", s.software_manager.software["icmp"].operating_state.name, "| ping from computer:", c.ping("192.168.1.3"))
