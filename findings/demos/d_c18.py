from common import *
import primaite.simulator.network.hardware.base as base
net,c,s,link = two_hosts(bw=100)
# warm ARP so that only echo request/reply cross the link
c.ping("192.168.1.3", pings=1)
link.pre_timestep(1)
# measure sizes of one echo exchange
sizes=[]
orig = base.Link.transmit_frame
def spy(self, sender_nic, frame):
    sizes.append(frame.size_Mbits); return orig(self, sender_nic, frame)
base.Link.transmit_frame = spy
c.ping("192.168.1.3", pings=1)
base.Link.transmit_frame = orig
print("frame sizes Mbit:", sizes, "load:", link.current_load)
# now a bandwidth that admits one frame but not two
link.pre_timestep(2)
link.bandwidth = max(sizes)*1.5
ok = c.ping("192.168.1.3", pings=1)
print("bandwidth", link.bandwidth, "ping ok", ok, "load", link.current_load, "exceeds:", link.current_load > link.bandwidth)
