"""C09 R9.6 - FolderObservation.cached_obs is read as "the value seen at the last scan" but never updated.

tests/assets/configs/data_manipulation.yaml, unchanged (file_system_requires_scan defaults to True).  The database file on
database_server is corrupted, the blue agent scans the folder (action 14).  In the step in which the scan completes the
folder's health leaf shows CORRUPT (3); one step later - nothing in the simulation changed, the folder's
visible_health_status is still CORRUPT and the *file* leaf inside the same folder still shows 3 - the folder leaf is
back to 0, because observe() falls back to self.cached_obs["health_status"], which still aliases default_observation.
C09 says the observation uses "the last-scanned ('visible') value exactly when the scenario says scanning is required".
"""
import _cleanup  # noqa: F401
import copy
import yaml
from primaite.session.environment import PrimaiteGymEnv

cfg = yaml.safe_load(open("/repo/tests/assets/configs/data_manipulation.yaml"))
cfg["io_settings"] = {"save_agent_actions": False, "save_step_metadata": False, "save_pcap_logs": False, "save_sys_logs": False}
blue = next(a for a in cfg["agents"] if a["team"] == "BLUE" and a["type"] == "proxy-agent")
blue["agent_settings"]["flatten_obs"] = False
print("blue action 14:", blue["action_space"]["action_map"][14])

env = PrimaiteGymEnv(copy.deepcopy(cfg))
obs, _ = env.reset()
db = env.game.simulation.network.get_node_by_hostname("database_server")
folder = db.file_system.get_folder("database")
file = folder.get_file("database.db")
fobs = env.agent.observation_manager.obs.components["NODES"].hosts[2].folders[0]
print("observed folder:", fobs.where, "| requires_scan:", fobs.file_system_requires_scan)


def show(tag, obs):
    leaf = obs["NODES"]["HOST2"]["FOLDERS"][1]
    print(f"{tag:34s} obs folder health={leaf['health_status']} file health={leaf['FILES'][1]['health_status']} | sim folder visible="
          f"{folder.visible_health_status.name}({folder.visible_health_status.value}) actual={folder.health_status.name} "
          f"scanned_this_step={folder._scanned_this_step} | cached_obs is default: {fobs.cached_obs is fobs.default_observation}")


show("reset", obs)
file.corrupt()
o, *_ = env.step(0)
show("file corrupted, not yet scanned", o)
for i in range(4):
    o, *_ = env.step(14 if i == 0 else 0)
    show("scan requested" if i == 0 else f"do-nothing ({i} after the scan)", o)
