import warnings; warnings.filterwarnings("ignore")
import yaml, copy
from primaite.session.environment import PrimaiteGymEnv
cfg = yaml.safe_load(open("/repo/tests/assets/configs/basic_switched_network.yaml"))
cfg["io_settings"] = {"save_agent_actions": False, "save_step_metadata": False, "save_pcap_logs": False, "save_sys_logs": False}
offs=[n["hostname"] for n in cfg["simulation"]["network"]["nodes"] if str(n.get("operating_state","")).upper()=="OFF"]
print("nodes declared OFF:", offs)
env = PrimaiteGymEnv(copy.deepcopy(cfg))
st = lambda e: {h: e.game.simulation.network.get_node_by_hostname(h).operating_state.name for h in offs}
print("fresh env :", st(env))
env.reset()
print("after reset:", st(env))
