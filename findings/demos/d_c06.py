"""C06 (zone selection): an internal host must not reach a server routed through the DMZ port when the DMZ-inbound ACL denies it.

    client(internal 192.168.0.2) --- internal [firewall] dmz(192.168.1.1) --- (192.168.1.2) [router] (10.0.0.1) --- db_server(10.0.0.2)

Internal-outbound and external-outbound let POSTGRES through, DMZ-inbound (implicit DENY) has no rule for it: every path
internal -> 10.0.0.0/24 leaves by the DMZ port and is blocked there.  Before the repair Firewall._process_internal_outbound_frame
(and _process_external_inbound_frame) chose the destination zone by `dst in self.dmz_port.ip_network` only, so a destination
routed via a next hop on the DMZ subnet was checked against external-outbound, forwarded out of the DMZ port, and the
DMZ-inbound list was never consulted.  Exit 0 = blocked as declared; AssertionError = the server's state changed.
Run with PYTHONPATH=<tree>/src.
"""
import copy
from ipaddress import IPv4Address

from primaite.simulator.network.container import Network
from primaite.simulator.network.hardware.nodes.host.computer import Computer
from primaite.simulator.network.hardware.nodes.host.server import Server
from primaite.simulator.network.hardware.nodes.network.firewall import Firewall
from primaite.simulator.network.hardware.nodes.network.router import ACLAction, Router
from primaite.simulator.system.applications.database_client import DatabaseClient
from primaite.simulator.system.applications.red_applications.data_manipulation_bot import DataManipulationBot
from primaite.simulator.system.services.database.database_service import DatabaseService
from primaite.utils.validation.port import PORT_LOOKUP

PG = PORT_LOOKUP["POSTGRES_SERVER"]
ARP = PORT_LOOKUP["ARP"]


def build():
    net = Network()
    fw: Firewall = Firewall.from_config(config={"type": "firewall", "hostname": "fw", "start_up_duration": 0})
    fw.power_on()
    fw.configure_external_port(ip_address=IPv4Address("192.168.10.1"), subnet_mask=IPv4Address("255.255.255.0"))
    fw.configure_dmz_port(ip_address=IPv4Address("192.168.1.1"), subnet_mask=IPv4Address("255.255.255.0"))
    fw.configure_internal_port(ip_address=IPv4Address("192.168.0.1"), subnet_mask=IPv4Address("255.255.255.0"))

    for acl in (
        fw.internal_inbound_acl,
        fw.internal_outbound_acl,
        fw.dmz_inbound_acl,
        fw.dmz_outbound_acl,
        fw.external_inbound_acl,
        fw.external_outbound_acl,
    ):
        acl.add_rule(action=ACLAction.PERMIT, src_port=ARP, dst_port=ARP, position=22)
    # POSTGRES may leave the DMZ and replies may come back, but nothing lets it INTO the internal zone
    fw.dmz_outbound_acl.add_rule(action=ACLAction.PERMIT, src_port=PG, dst_port=PG, position=1)
    fw.internal_outbound_acl.add_rule(action=ACLAction.PERMIT, src_port=PG, dst_port=PG, position=1)
    fw.internal_inbound_acl.add_rule(action=ACLAction.PERMIT, src_port=PG, dst_port=PG, position=1)
    assert fw.dmz_inbound_acl.implicit_action == ACLAction.DENY

    router: Router = Router.from_config(config={"type": "router", "hostname": "r_int", "start_up_duration": 0})
    router.power_on()
    router.configure_port(1, "192.168.1.2", "255.255.255.0")
    router.configure_port(2, "10.0.0.1", "255.255.255.0")
    router.acl.add_rule(action=ACLAction.PERMIT, position=1)  # the internal router filters nothing

    attacker: Computer = Computer.from_config(
        config={
            "type": "computer",
            "hostname": "attacker",
            "ip_address": "192.168.0.2",
            "subnet_mask": "255.255.255.0",
            "default_gateway": "192.168.0.1",
            "start_up_duration": 0,
        }
    )
    attacker.power_on()
    db_server: Server = Server.from_config(
        config={
            "type": "server",
            "hostname": "db_server",
            "ip_address": "10.0.0.2",
            "subnet_mask": "255.255.255.0",
            "default_gateway": "10.0.0.1",
            "start_up_duration": 0,
        }
    )
    db_server.power_on()

    net.connect(endpoint_a=fw.internal_port, endpoint_b=attacker.network_interface[1])
    net.connect(endpoint_a=fw.dmz_port, endpoint_b=router.network_interface[1])
    net.connect(endpoint_a=router.network_interface[2], endpoint_b=db_server.network_interface[1])
    router.enable_port(1)
    router.enable_port(2)

    fw.route_table.add_route(address="10.0.0.0", subnet_mask="255.255.255.0", next_hop_ip_address="192.168.1.2")
    router.route_table.set_default_route_next_hop_ip_address("192.168.1.1")

    db_server.software_manager.install(DatabaseService)
    db_service: DatabaseService = db_server.software_manager.software["database-service"]
    db_service.start()

    attacker.software_manager.install(DatabaseClient)
    db_client: DatabaseClient = attacker.software_manager.software["database-client"]
    db_client.configure(server_ip_address=IPv4Address("10.0.0.2"))
    db_client.run()
    attacker.software_manager.install(DataManipulationBot)
    bot: DataManipulationBot = attacker.software_manager.software["data-manipulation-bot"]
    bot.configure(server_ip_address=IPv4Address("10.0.0.2"), payload="DELETE")
    bot.port_scan_p_of_success = 1
    bot.data_manipulation_p_of_success = 1
    return net, fw, router, attacker, db_server, db_service, db_client, bot


def control():
    """Sanity: with an internal-inbound PERMIT for POSTGRES the very same path works (so the block is what stops it)."""
    net, fw, router, attacker, db_server, db_service, db_client, bot = build()
    fw.dmz_inbound_acl.add_rule(action=ACLAction.PERMIT, src_port=PG, dst_port=PG, position=1)
    assert db_client.get_new_connection() is not None, "control run: topology is not routable even when permitted"


def main():
    control()
    net, fw, router, attacker, db_server, db_service, db_client, bot = build()

    # warm the ARP caches along the path from the *internal* side, so that learned entries exist (legitimate traffic)
    db_server.software_manager.arp.send_arp_request(IPv4Address("10.0.0.1"))
    router.software_manager.arp.send_arp_request(IPv4Address("192.168.1.1"))
    fw.software_manager.arp.send_arp_request(IPv4Address("192.168.1.2"))

    before = copy.deepcopy(db_server.describe_state())
    denied_before = fw.dmz_inbound_acl.implicit_rule.match_count

    # the attacker runs its repertoire against the database server
    connection = db_client.get_new_connection()
    for _ in range(3):
        bot.attack()
    db_client.query("DELETE")
    if connection:
        connection.query("DELETE")

    after = db_server.describe_state()

    problems = []
    if connection is not None:
        problems.append("client obtained a database connection through a firewall whose DMZ-inbound ACL denies it")
    if db_service.connections:
        problems.append(f"database service holds connections from the internal zone: {list(db_service.connections)}")
    if before != after:
        diff = [k for k in after if after[k] != before.get(k)]
        problems.append(f"db_server state changed although every internal->DMZ-port path is blocked (keys: {diff})")
    if fw.dmz_inbound_acl.implicit_rule.match_count == denied_before:
        problems.append("the DMZ-inbound ACL was never consulted for traffic routed out of the DMZ port")

    for p in problems:
        print("VIOLATION:", p)
    assert not problems, "C06 violated: blocked internal host affected a server routed via the DMZ port"
    print("OK: blocked internal host had no effect on the server behind the DMZ router")


if __name__ == "__main__":
    main()
