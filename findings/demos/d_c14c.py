"""C14 R14.6(b): a whole-node scan configured with node_scan_duration 0 never happens.

Node.scan() arms node_scan_countdown = node_scan_duration; Node.apply_timestep does `if countdown > 0: countdown -= 1; if countdown == 0: <scan>`.
Armed with 0 the guard is false on every tick: nothing is ever scanned.  Exit 0 = the scan completes; AssertionError otherwise.
Run with PYTHONPATH=<tree>/src.
"""
from common import *
from primaite.simulator.system.services.ntp.ntp_server import NTPServer
from primaite.simulator.system.software import SoftwareHealthState as S

problems = []
for dur in (0, 1, 2):
    net, c, s, link = two_hosts()
    s.software_manager.install(NTPServer)
    svc = s.software_manager.software["ntp-server"]
    s.config.node_scan_duration = dur
    svc.set_health_state(S.COMPROMISED)
    s.scan()
    ticks = 0
    while svc.health_state_visible != S.COMPROMISED and ticks < 6:
        s.apply_timestep(ticks); ticks += 1
    print(f"node_scan_duration={dur}: visible={svc.health_state_visible.name} after {ticks} tick(s)")
    if svc.health_state_visible != S.COMPROMISED:
        problems.append(f"node scan with duration {dur} never completed")
for p in problems:
    print("VIOLATION:", p)
assert not problems
print("OK")
