"""Import first in a demo: removes, at exit, the ~/primaite/<ver>/sessions/<date>/<time> directory that *this process*
created (the one named after this process's SIM_OUTPUT timestamp) - and nothing that existed before or belongs to
another process."""
import atexit, glob, os, shutil, warnings
warnings.filterwarnings("ignore")
_SESS = os.path.expanduser("~/primaite/*/sessions/*/*")
_before = set(glob.glob(_SESS))


def _cleanup() -> None:
    try:
        from primaite.simulator import SIM_OUTPUT
        mine = SIM_OUTPUT.time_str
    except Exception:
        return
    for d in set(glob.glob(_SESS)) - _before:
        if os.path.basename(d) == mine:
            shutil.rmtree(d, ignore_errors=True)


atexit.register(_cleanup)
