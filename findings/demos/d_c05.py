"""C05 R5.4: node-application-execute on an installed application without an 'execute' request -> 'unreachable'."""
from common import *
from primaite.simulator.sim_container import Simulation
from primaite.game.agent.actions import ActionManager
from primaite.simulator.system.applications.red_applications.c2.c2_server import C2Server

net, c, s, link = two_hosts()
sim = Simulation(network=net)
c.software_manager.install(C2Server)
am = ActionManager()
for app in ("nmap", "c2-server", "web-browser"):
    req = am.form_request("node-application-execute", {"node_name": "computer", "application_name": app})
    print(app, "installed:", app in c.software_manager.software, "->", sim.apply_request(req).status)
