"""C01/C05 R1.10: a table pop keyed by a caller-supplied / foreign identifier without a default raises out of the pipeline.

(a) request [.. 'user-session-manager', 'remote_logout', <unknown id>]: UserSessionManager._logout does
    self.remote_sessions.pop(remote_session_id) -> KeyError out of apply_request (should answer 'failure').
(b) a remote session opened through the user-session-manager's own remote_login request has no Terminal connection; when
    it times out, _timeout_session does self.parent.terminal._connections.pop(session.uuid) -> KeyError out of
    Simulation.pre_timestep, i.e. out of env.step().
Exit 0 = both handled; AssertionError otherwise.  Run with PYTHONPATH=<tree>/src.
"""
from common import *
from primaite.simulator.sim_container import Simulation

net, c, s, link = two_hosts()
sim = Simulation(network=net)
problems = []
try:
    r = sim.apply_request(["network", "node", "server", "service", "user-session-manager", "remote_logout", "no-such-session"])
    print("(a) response:", r.status)
    if r.status not in ("failure", "unreachable"):
        problems.append(f"(a) unknown session id answered {r.status}")
except Exception as e:  # noqa
    problems.append(f"(a) remote_logout with an unknown id raised {type(e).__name__}: {e}")

r = sim.apply_request(["network", "node", "server", "service", "user-session-manager", "remote_login", "admin", "admin", "192.168.1.2"])
print("(b) remote_login:", r.status, "sessions:", len(s.user_session_manager.remote_sessions))
usm = s.user_session_manager
try:
    for t in range(usm.remote_session_timeout_steps + 3):
        sim.pre_timestep(t)
        sim.apply_timestep(t)
    print("(b) sessions after the time-out:", len(usm.remote_sessions))
    if usm.remote_sessions:
        problems.append("(b) session did not time out")
except Exception as e:  # noqa
    problems.append(f"(b) session time-out raised {type(e).__name__}: {e!r} out of the timestep")
for p in problems:
    print("VIOLATION:", p)
assert not problems
print("OK")
