"""C02 R2.2 - NICObservation._categorise_traffic returns int(u * 9) + 1 with u = traffic / NIC speed, unclamped.

Scenario file of the repo's own test-suite (tests/assets/configs/basic_switched_network.yaml: links of 200 Mbit/s, NIC
speed is the fixed default 100, blue agent monitors per-port traffic).  The only edits: the monitored TCP port is FTP, and
client_1/client_2 get the FTP client/server (both installable from a scenario file).  One FTP transfer of a 15 MB .flv
file inside one step puts 117.2 Mbit through client_1's NIC: u = 1.17, category int(10.5) + 1 = 11, declared space Discrete(11).
LinkObservation computes the same expression but clamps with min(., 10).
"""
import _cleanup  # noqa: F401  (removes the session directory this run creates)
import copy
import yaml
import gymnasium
from primaite.session.environment import PrimaiteGymEnv
from primaite.simulator.system.services.ftp.ftp_client import FTPClient
from primaite.simulator.system.services.ftp.ftp_server import FTPServer

cfg = yaml.safe_load(open("/repo/tests/assets/configs/basic_switched_network.yaml"))
cfg["io_settings"] = {"save_agent_actions": False, "save_step_metadata": False, "save_pcap_logs": False, "save_sys_logs": False}
blue = next(a for a in cfg["agents"] if a["ref"] == "defender")
nodes_opts = blue["observation_space"]["options"]["components"][0]["options"]
nodes_opts["monitored_traffic"] = {"tcp": ["FTP"]}
blue.setdefault("agent_settings", {})["flatten_obs"] = False

env = PrimaiteGymEnv(copy.deepcopy(cfg))
obs, _ = env.reset()
print("after reset: observation in space:", env.observation_space.contains(obs))
net = env.game.simulation.network
c1, c2 = net.get_node_by_hostname("client_1"), net.get_node_by_hostname("client_2")
c1.software_manager.install(FTPClient)
c2.software_manager.install(FTPServer)
c1.file_system.create_file(folder_name="media", file_name="film.flv")
f = c1.file_system.get_file("media", "film.flv")
print("file size (bytes):", f.sim_size, "| link bandwidth:", c1.network_interface[1]._connected_link.bandwidth,
      "| NIC speed:", c1.network_interface[1].speed)


def step_with(env, during):
    """PrimaiteGymEnv.step(0) with `during()` run where the agents' requests are applied."""
    env.agent.store_action(0)
    env.game.pre_timestep()
    env.game.apply_agent_actions()
    during()
    env.game.advance_timestep()
    env.game.update_agents(env.game.get_sim_state())
    return env._get_obs()


ftp = c1.software_manager.software["ftp-client"]
sent = []
obs = step_with(env, lambda: sent.append(ftp.send_file(dest_ip_address=c2.network_interface[1].ip_address, src_folder_name="media",
                                                         src_file_name="film.flv", dest_folder_name="in", dest_file_name="film.flv")))
print("send_file returned:", sent)
print("client_1 NIC 1 traffic (Mbit this step):", c1.network_interface[1].describe_state()["traffic"])
leaf = obs["NODES"]["HOST0"]["NICS"][1]["TRAFFIC"]
print("observation leaf HOST0/NICS/1/TRAFFIC:", leaf)
sub = env.observation_space["NODES"]["HOST0"]["NICS"][1]["TRAFFIC"]["tcp"][21]["outbound"]
print("declared space of tcp/21/outbound:", sub, "| contains(leaf):", sub.contains(leaf["tcp"][21]["outbound"]))
print("whole observation in observation_space:", env.observation_space.contains(obs))
try:
    gymnasium.spaces.flatten(env.observation_space, obs)
    print("flatten: ok")
except Exception as e:  # flatten_obs: true is the documented setting for SB3/RLlib
    print("flatten raised", type(e).__name__, str(e)[:90])
