"""More one-off triage demonstrations (runtime; not checks)."""
from common import *
from datetime import datetime
from ipaddress import IPv4Address

# --- C03: Frame.size depends on the wall-clock timestamp's text length -------------------------------------------
from primaite.simulator.network.transmission.data_link_layer import Frame, EthernetHeader
from primaite.simulator.network.transmission.network_layer import IPPacket
from primaite.simulator.network.transmission.transport_layer import TCPHeader
def mk():
    return Frame(ethernet=EthernetHeader(src_mac_addr="aa:bb:cc:dd:ee:ff", dst_mac_addr="11:22:33:44:55:66"),
                 ip=IPPacket(src_ip_address="192.168.1.2", dst_ip_address="192.168.1.3"), tcp=TCPHeader(src_port=80, dst_port=80), payload="x")
f1, f2 = mk(), mk()
f1.sent_timestamp = datetime(2026, 1, 1, 12, 0, 0, 0)        # microsecond == 0 -> shorter ISO text
f2.sent_timestamp = datetime(2026, 1, 1, 12, 0, 0, 123456)
print("C03 Frame.size with us=0:", f1.size, " with us=123456:", f2.size)

# --- C02: raw per-tick counters / ACL ip lookup --------------------------------------------------------------------
from primaite.game.agent.observations.host_observations import HostObservation
from primaite.game.agent.observations.acl_observation import ACLObservation
net, c, s, link = two_hosts()
for i in range(6):
    c.file_system.create_file(folder_name="f", file_name=f"f{i}.txt")
cfg = HostObservation.ConfigSchema(hostname="computer", num_services=0, num_applications=0, num_folders=0, num_files=0, num_nics=0,
                                   include_nmne=False, include_num_access=True, include_users=False, monitored_traffic=None,
                                   file_system_requires_scan=False, services_requires_scan=False, applications_requires_scan=False)
ho = HostObservation.from_config(cfg)
state = {"network": net.describe_state()}
obs = ho.observe(state)
print("C02 num_file_creations obs:", obs["num_file_creations"], "space:", ho.space["num_file_creations"], "contains:", ho.space.contains(obs))

# --- C13: the 'already installed' guard map is never populated -----------------------------------------------------
from primaite.simulator.system.services.dns.dns_client import DNSClient
before = len(c.services)
c.software_manager.install(DNSClient)          # dns-client is system software and already installed
print("C13 services before/after re-install:", before, len(c.services), "| guard map:", c.software_manager._software_class_to_name_map)
c.software_manager.uninstall("dns-client")
print("C13 after uninstall: in software:", "dns-client" in c.software_manager.software,
      "| still listed in node state:", "dns-client" in c.describe_state()["services"])

# --- C16: password change ends only the first of a user's remote sessions ---------------------------------------
usm = s.user_session_manager
a = usm.remote_login("admin", "admin", IPv4Address("192.168.1.2"))
b = usm.remote_login("admin", "admin", IPv4Address("192.168.1.2"))
s.user_manager.change_user_password("admin", "admin", "new")
print("C16 remote sessions after password change:", len(usm.remote_sessions), "(2 were open)")
