"""C09 R9.11: a whole-node scan updates a folder's visible health without telling the folder observation.

Folder.scan(instant_scan=True) - what a completed node-os-scan calls on every folder - sets visible_health_status (to CORRUPT when
a file is corrupt) but not _scanned_this_step.  FolderObservation (file_system_requires_scan: true) refreshes its leaf only when
scanned_this_step is set, so after the node scan the folder's visible health is CORRUPT while the leaf still shows the old value.
Exit 0 = the leaf equals the folder's visible health after the scan; AssertionError otherwise.  Run with PYTHONPATH=<tree>/src.
"""
import _cleanup  # noqa: F401
import copy
import yaml
from primaite.session.environment import PrimaiteGymEnv

cfg = yaml.safe_load(open("/repo/tests/assets/configs/data_manipulation.yaml"))
cfg["io_settings"] = {"save_agent_actions": False, "save_step_metadata": False, "save_pcap_logs": False, "save_sys_logs": False}
blue = next(a for a in cfg["agents"] if a["team"] == "BLUE" and a["type"] == "proxy-agent")
blue["agent_settings"]["flatten_obs"] = False
am = blue["action_space"]["action_map"]
scan_id = next(k for k, v in am.items() if v["action"] == "node-os-scan" and v["options"].get("node_name") == "database_server")
env = PrimaiteGymEnv(copy.deepcopy(cfg))
obs, _ = env.reset()
db = env.game.simulation.network.get_node_by_hostname("database_server")
folder = db.file_system.get_folder("database")
folder.get_file("database.db").corrupt()
problems = []
o, *_ = env.step(scan_id)
for i in range(db.config.node_scan_duration + 2):
    o, *_ = env.step(0)
    leaf = o["NODES"]["HOST2"]["FOLDERS"][1]["health_status"]
    print(f"step {i}: folder visible={folder.visible_health_status.name}({folder.visible_health_status.value}) leaf={leaf}")
if leaf != folder.visible_health_status.value:
    problems.append(f"after the node scan the folder's visible health is {folder.visible_health_status.name} but the observation leaf is {leaf}")
for p in problems:
    print("VIOLATION:", p)
assert not problems
print("OK")
