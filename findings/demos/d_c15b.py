from common import *
net,c,s,link = two_hosts()
fs = c.file_system
fs.create_file(folder_name="f", file_name="a.txt")
# as the action forms it: verb string in the force slot
from primaite.game.agent.actions import ActionManager
from primaite.game.agent.actions.abstract import AbstractAction
cls = AbstractAction._registry["node-file-create"]
req = cls.form_request(cls.ConfigSchema(node_name="computer", folder_name="f", file_name="a.txt"))
print(req)
r = c.apply_request(req[3:])
print(r.status)
folder = fs.get_folder("f")
print("live names", [x.name for x in folder.files.values()])
