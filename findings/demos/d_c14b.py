"""C14 R14.6(b): a folder scan / restore / reveal configured with duration 0 never completes.

Folder._scan_timestep (and _restoring_timestep, _reveal_to_red_timestep) do `if countdown >= 0: countdown -= 1; if countdown == 0: <complete>`.
Started from a configured duration of 0 the countdown steps from 0 to -1 and the completion test `== 0` is never true: the scan
never reports, the restore never repairs.  C14 quantifies over "all configured durations (including 0 and 1)".
Exit 0 = completes within a few ticks; AssertionError otherwise.  Run with PYTHONPATH=<tree>/src.
"""
from common import *
from primaite.simulator.file_system.file_system_item_abc import FileSystemItemHealthStatus as H

net, c, s, link = two_hosts()
fs = s.file_system
problems = []
for dur in (0, 1, 2):
    folder = fs.create_folder(f"f{dur}")
    f = fs.create_file(folder_name=f"f{dur}", file_name="a.txt")
    folder.scan_duration = dur
    folder.restore_duration = dur
    f.corrupt()
    folder.scan()
    ticks = 0
    while folder.visible_health_status != H.CORRUPT and ticks < 6:
        folder.apply_timestep(ticks); ticks += 1
    print(f"scan_duration={dur}: visible={folder.visible_health_status.name} after {ticks} tick(s)")
    if folder.visible_health_status != H.CORRUPT:
        problems.append(f"folder scan with duration {dur} never completed")
    folder.restore()
    ticks = 0
    while f.health_status != H.GOOD and ticks < 6:
        folder.apply_timestep(ticks); ticks += 1
    print(f"restore_duration={dur}: file health={f.health_status.name} after {ticks} tick(s)")
    if f.health_status != H.GOOD:
        problems.append(f"folder restore with duration {dur} never completed")
for p in problems:
    print("VIOLATION:", p)
assert not problems
print("OK")
