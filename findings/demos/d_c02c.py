"""C02 R2.3 - ACLObservation.observe indexes self.ip_to_id with the rule's address without a default.

tests/assets/configs/data_manipulation.yaml unchanged except for ONE blue action: action 46 ("block outgoing traffic
from client 1") gets the address of a host the observation's ip_list does not mention (192.168.10.23 instead of
192.168.10.21).  Nothing validates an action's address against the observation's ip_list.  The action succeeds in the
simulator; building the next observation raises KeyError out of env.step().  The five sibling look-ups (wildcard, ports,
protocol) use .get(k, 1) and would report 1 = "any/unknown".
"""
import _cleanup  # noqa: F401
import copy
import yaml
from primaite.session.environment import PrimaiteGymEnv

cfg = yaml.safe_load(open("/repo/tests/assets/configs/data_manipulation.yaml"))
cfg["io_settings"] = {"save_agent_actions": False, "save_step_metadata": False, "save_pcap_logs": False, "save_sys_logs": False}
blue = next(a for a in cfg["agents"] if a["team"] == "BLUE" and a["type"] == "proxy-agent")
ip_list = None
for comp in blue["observation_space"]["options"]["components"]:
    if "ip_list" in comp.get("options", {}):
        ip_list = comp["options"]["ip_list"]
print("observation ip_list:", ip_list)
act = blue["action_space"]["action_map"][46]
print("action 46 before:", act["action"], act["options"]["src_ip"])
act["options"]["src_ip"] = "192.168.10.23"
print("action 46 after :", act["action"], act["options"]["src_ip"], "(in ip_list:", act["options"]["src_ip"] in ip_list, ")")

env = PrimaiteGymEnv(copy.deepcopy(cfg))
obs, _ = env.reset()
print("reset ok; observation in space:", env.observation_space.contains(obs))
o, r, term, trunc, info = env.step(0)
print("step(do-nothing) ok; in space:", env.observation_space.contains(o))
try:
    o, r, term, trunc, info = env.step(46)
    print("step(46) returned; in space:", env.observation_space.contains(o))
except Exception as e:
    print("step(46) raised", type(e).__name__, e)
router = env.game.simulation.network.get_node_by_hostname("router_1")
print("rule installed at position 0:", router.acl.acl[0])
try:
    env.step(0)
    print("next step ok")
except Exception as e:
    print("every later step raises too:", type(e).__name__, e)
