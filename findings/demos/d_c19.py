"""C19 triage demos (run PrimAITE; not a check).

(a) R19.4  TAP003._exploit compares/stores a KillChainStageProgress in the *stage* field: the comparison
    `current_kill_chain_stage == KillChainStageProgress.PENDING` is always False, so the EXPLOIT probability trial is
    dead code - with EXPLOIT.probability = 0 and repeat_kill_chain_stages = False the insider still attacks.
(b) R19.5  ProbabilisticAgent.probabilities = list(action_probabilities.values()): dict *insertion* order, not key
    order - a table written {1: 0.0, 0: 1.0} makes the agent always pick action 1, to which it gave probability 0.
(c) R19.1/R19.6  DataManipulationAgent.get_action overrides PeriodicAgent.get_action without the max_executions test
    (and never advances num_executions): max_executions = 1 is ignored.
"""
import _cleanup  # removes the session directory this run creates
import random
from primaite.game.agent.interface import AbstractAgent
from primaite.game.agent.scripted_agents.TAP003 import TAP003, InsiderKillChain  # noqa: F401  (registers tap-003)
from primaite.game.agent.scripted_agents import probabilistic_agent, data_manipulation_bot  # noqa: F401
from primaite.interface.request import RequestResponse

print("=== (a) TAP003: EXPLOIT.probability = 0.0, repeat_kill_chain_stages = False ===")
random.seed(1)
acl = {"target_router": "router_1", "position": 1, "permission": "DENY", "src_ip": "ALL", "src_wildcard": "NONE",
       "dst_ip": "ALL", "dst_wildcard": "NONE", "src_port": "HTTP", "dst_port": "HTTP", "protocol_name": "TCP"}
tap = AbstractAgent.from_config({
    "ref": "insider", "team": "RED", "type": "tap-003",
    "agent_settings": {
        "start_step": 1, "frequency": 1, "variance": 0, "repeat_kill_chain": False, "repeat_kill_chain_stages": False,
        "default_starting_node": "pc_1",
        "kill_chain": {
            "PLANNING": {"probability": 1, "starting_network_knowledge": {"credentials": {
                "pc_1": {"username": "admin", "password": "admin"},
                "router_1": {"ip_address": "10.0.0.1", "username": "admin", "password": "admin"}}}},
            "ACCESS": {"probability": 1}, "MANIPULATION": {"probability": 1, "account_changes": []},
            "EXPLOIT": {"probability": 0.0, "malicious_acls": [acl]}}}})
for t in range(0, 9):
    name, params = tap.get_action(None, timestep=t)
    # what the game layer would do: record the action with the simulator's answer (always 'success' here)
    data = {"ip_address": "10.0.0.1", "username": "admin"} if name == "node-session-remote-login" else {}
    tap.process_action_response(timestep=t, action=name, parameters=params, request=[name],
                                response=RequestResponse(status="success", data=data), observation=None)
    st = tap.current_kill_chain_stage
    flag = "   <-- attack action although the EXPLOIT trial cannot succeed (p = 0)" if name != "do-nothing" else ""
    print(f"t={t}: stage={getattr(st, 'name', st)!s:15s} action={name}{flag}")
print("stage field holds a member of:", type(tap.current_kill_chain_stage).__name__,
      "| InsiderKillChain.EXPLOIT == KillChainStageProgress.PENDING ->",
      InsiderKillChain.EXPLOIT == __import__("primaite.game.agent.scripted_agents.abstract_tap", fromlist=["x"]).KillChainStageProgress.PENDING)

print()
print("=== (b) ProbabilisticAgent: action_probabilities = {1: 0.0, 0: 1.0} (action 1 has probability ZERO) ===")
amap = {0: {"action": "do-nothing", "options": {}},
        1: {"action": "node-application-execute", "options": {"node_name": "client_1", "application_name": "web-browser"}}}
pa = AbstractAgent.from_config({"ref": "green", "team": "GREEN", "type": "probabilistic-agent",
                                "agent_settings": {"action_probabilities": {1: 0.0, 0: 1.0}},
                                "action_space": {"action_map": amap}})
print("configured:", pa.config.agent_settings.action_probabilities, "-> vector handed to rng.choice:", list(pa.probabilities))
picks = [pa.get_action(None, timestep=t)[0] for t in range(20)]
print("20 actions:", {a: picks.count(a) for a in sorted(set(picks))}, "  <-- the probability-0 action is the only one ever chosen")

print()
print("=== (c) DataManipulationAgent: max_executions = 1, start_step = 2, frequency = 2, variance = 0 ===")
dm = AbstractAgent.from_config({"ref": "red", "team": "RED", "type": "red-database-corrupting-agent",
                                "agent_settings": {"start_step": 2, "frequency": 2, "variance": 0, "max_executions": 1,
                                                   "possible_start_nodes": ["client_1"]}})
acts = [(t, dm.get_action(None, timestep=t)[0]) for t in range(1, 11)]
fired = [t for t, a in acts if a != "do-nothing"]
print("non-do-nothing actions at steps", fired, f"-> {len(fired)} executions with max_executions = 1; num_executions = {dm.num_executions}")
pe = AbstractAgent.from_config({"ref": "green2", "team": "GREEN", "type": "periodic-agent",
                                "agent_settings": {"start_step": 2, "frequency": 2, "variance": 0, "max_executions": 1,
                                                   "possible_start_nodes": ["client_1"], "target_application": "web-browser"}})
fired = [t for t in range(1, 11) if pe.get_action(None, timestep=t)[0] != "do-nothing"]
print("(parent PeriodicAgent with the same settings fires at", fired, ")")
