#!/venv/bin/python
"""Master copy of the self-test corpus: `python selftest/build_corpus.py` writes selftest/corpus/<prop>.json.

Each variant is an edit of /repo's *current* source that either breaks the property while still compiling (kind
"break": the named rule must fire) or preserves behaviour (kind "benign": the check must stay silent).  The edits are
applied in memory by sa/selftest.py; nothing here is executed against PrimAITE.
"""
import json
import os

HERE = os.path.dirname(os.path.abspath(__file__))
P = "src/primaite/"
CORE = P + "simulator/core.py"
BASE = P + "simulator/network/hardware/base.py"
ROUTER = P + "simulator/network/hardware/nodes/network/router.py"
FIREWALL = P + "simulator/network/hardware/nodes/network/firewall.py"
SWITCH = P + "simulator/network/hardware/nodes/network/switch.py"
HOSTNODE = P + "simulator/network/hardware/nodes/host/host_node.py"
GAME = P + "game/game.py"
ENV = P + "session/environment.py"
APPLICATION_ = P + "simulator/system/applications/application.py"
IFACE = P + "game/agent/interface.py"
FS = P + "simulator/file_system/file_system.py"
FOLDER = P + "simulator/file_system/folder.py"
AIRSPACE = P + "simulator/network/airspace.py"
CONTAINER = P + "simulator/network/container.py"
SWM = P + "simulator/system/core/software_manager.py"
NMAP = P + "simulator/system/applications/nmap.py"
ACT_FILE = P + "game/agent/actions/file.py"
ACT_SVC = P + "game/agent/actions/service.py"
ACT_ACL = P + "game/agent/actions/acl.py"
ACT_NODE = P + "game/agent/actions/node.py"
REQ = P + "interface/request.py"
SCHED = P + "session/episode_schedule.py"
DLL = P + "simulator/network/transmission/data_link_layer.py"

C: dict = {}


def v(prop, vid, kind, file, old, new, rule=None, what=""):
    C.setdefault(prop, []).append({"id": vid, "kind": kind, "file": file, "old": old, "new": new, "rule": rule, "what": what})


v("C04", "nmne-setting-only-when-declared", "break", GAME,
  '''        NetworkInterface.nmne_config = NMNEConfig(**network_config.get("nmne_config", {}))''',
  '''        if "nmne_config" in network_config:
            NetworkInterface.nmne_config = NMNEConfig(**network_config["nmne_config"])''', "R4.1", "a scenario without the section inherits the previous game's NMNE settings")

v("C04", "reset-reseeds-the-process-directly", "break", ENV,
  '''        if seed is not None:
            set_random_seed(seed, self.generate_seed_value)
        self.total_reward_per_episode''',
  '''        if seed is not None:
            set_random_seed(seed, self.generate_seed_value)
        else:
            random.seed(self.episode_counter)
        self.total_reward_per_episode''', "R4.1", "global generator written outside set_random_seed")
v("C04", "unseeded-session-scrambles-the-streams", "break", ENV,
  '''        else:
            return None
    elif seed < -1:''',
  '''        else:
            np.random.seed(None)
            return None
    elif seed < -1:''', "R4.1", "re-seeding on the no-seed path")

# ------------------------------------------------------------------------------------------------ C05
v("C05", "unknown-key-success", "break", CORE,
  'return RequestResponse(status="unreachable", data={"reason": msg})',
  'return RequestResponse(status="success", data={"reason": msg})', "R5.1", "unknown request name answered 'success'")
v("C05", "validator-dropped", "break", CORE,
  '''        if not request_type.validator(request_options, context):
            _LOGGER.debug(f"Request {request} was denied due to insufficient permissions")
            return RequestResponse(status="failure", data={"reason": request_type.validator.fail_message})

        return request_type.func(request_options, context)''',
  '''        return request_type.func(request_options, context)''', "R5.1", "dispatcher no longer consults the validator")
v("C05", "refusal-mutates", "break", CORE,
  '''            _LOGGER.debug(f"Request {request} was denied due to insufficient permissions")
            return RequestResponse(status="failure"''',
  '''            _LOGGER.debug(f"Request {request} was denied due to insufficient permissions")
            self.request_types.pop(request_key)
            return RequestResponse(status="failure"''', "R5.1", "a refused request removes the route (state change on refusal)")
v("C05", "from-bool-swapped", "break", REQ,
  '''        if status_bool is True:
            return cls(status="success", data={})
        elif status_bool is False:
            return cls(status="failure", data={})''',
  '''        if status_bool is True:
            return cls(status="failure", data={})
        elif status_bool is False:
            return cls(status="success", data={})''', "R5.2", "from_bool maps True to failure")
v("C05", "undocumented-status", "break", P + "simulator/sim_container.py",
  'RequestResponse(status="success")', 'RequestResponse(status="ok")', "R5.2", "status outside the documented vocabulary")
v("C05", "validator-side-effect", "break", BASE,
  '''            """Return whether the node is on or off."""
            return self.node.operating_state == NodeOperatingState.ON''',
  '''            """Return whether the node is on or off."""
            self.node.config.revealed_to_red = True
            return self.node.operating_state == NodeOperatingState.ON''', "R5.3", "validator writes node state")
v("C05", "action-verb-typo", "break", ACT_SVC,
  '''        verb: ClassVar[str] = "restart"''', '''        verb: ClassVar[str] = "re-start"''', "R5.4", "action verb no longer matches a registered request")
v("C05", "action-segment-swapped", "break", ACT_FILE,
  '''            "file_system",
            "folder",
            config.folder_name,
            "file",
            config.file_name,
            config.verb,
        ]''',
  '''            "file_system",
            "file",
            config.folder_name,
            "folder",
            config.file_name,
            config.verb,
        ]''', "R5.4", "file action addresses file/<folder>/folder/<file>")
v("C05", "request-renamed", "break", P + "simulator/system/services/service.py",
  '''            "pause",
            RequestType(''', '''            "suspend",
            RequestType(''', "R5.4", "service registers 'suspend' while the action still sends 'pause'")
v("C05", "missing-parameter", "break", ACT_NODE,
  '''            "add_user",
            config.username,
            config.password,
            config.is_admin,
        ]''',
  '''            "add_user",
            config.username,
            config.password,
        ]''', "R5.4", "add_user handler reads request[2] but the action sends two parameters")
v("C05", "no-remove-on-uninstall", "break", SWM,
  '''            self.node.applications.pop(software.uuid)
            self.node._application_request_manager.remove_request(software.name)''',
  '''            self.node.applications.pop(software.uuid)''', "R5.5", "uninstalled application stays routable")
v("C05", "benign-key-test-positive", "benign", CORE,
  '''        if request_key not in self.request_types:
            msg = (
                f"Request {request} could not be processed because {request_key} is not a valid request name",
                "within this RequestManager",
            )
            _LOGGER.debug(msg)
            return RequestResponse(status="unreachable", data={"reason": msg})

        request_type = self.request_types[request_key]

        if not request_type.validator(request_options, context):
            _LOGGER.debug(f"Request {request} was denied due to insufficient permissions")
            return RequestResponse(status="failure", data={"reason": request_type.validator.fail_message})

        return request_type.func(request_options, context)''',
  '''        if request_key in self.request_types:
            request_type = self.request_types[request_key]
            permitted = request_type.validator(request_options, context)
            if permitted:
                return request_type.func(request_options, context)
            _LOGGER.debug(f"Request {request} was denied due to insufficient permissions")
            return RequestResponse(status="failure", data={"reason": request_type.validator.fail_message})
        msg = (
            f"Request {request} could not be processed because {request_key} is not a valid request name",
            "within this RequestManager",
        )
        _LOGGER.debug(msg)
        return RequestResponse(status="unreachable", data={"reason": msg})''', None, "same dispatcher written with positive tests and a local verdict")
v("C05", "benign-rename-local", "benign", CORE,
  '''        request_type = self.request_types[request_key]

        if not request_type.validator(request_options, context):
            _LOGGER.debug(f"Request {request} was denied due to insufficient permissions")
            return RequestResponse(status="failure", data={"reason": request_type.validator.fail_message})

        return request_type.func(request_options, context)''',
  '''        entry = self.request_types[request_key]

        if not entry.validator(request_options, context):
            _LOGGER.debug(f"Request {request} was denied due to insufficient permissions")
            return RequestResponse(status="failure", data={"reason": entry.validator.fail_message})

        return entry.func(request_options, context)''', None, "local renamed")

# ------------------------------------------------------------------------------------------------ C11
v("C11", "nonleaf-validator-skipped", "break", CORE,
  '''        # a request refused at this level never reaches the sub-tree or the handler (mirrors __call__)
        if not request_type.validator(request_options, context):
            return False

        # recurse if we are not at a leaf node
        if isinstance(request_type.func, RequestManager):
            return request_type.func.check_valid(request_options, context)

        return True''',
  '''        # recurse if we are not at a leaf node
        if isinstance(request_type.func, RequestManager):
            return request_type.func.check_valid(request_options, context)

        return request_type.validator(request_options, context)''', "R11.1", "the original defect: sub-tree guards skipped by the mask")
v("C11", "unknown-key-valid", "break", CORE,
  '''        if request_key not in self.request_types:
            return False

        request_type = self.request_types[request_key]

        # a request refused''',
  '''        if request_key not in self.request_types:
            return True

        request_type = self.request_types[request_key]

        # a request refused''', "R11.1", "mask says available for a missing target")
v("C11", "leaf-always-true", "break", CORE,
  '''        if not request_type.validator(request_options, context):
            return False

        # recurse''',
  '''        if isinstance(request_type.func, RequestManager) and not request_type.validator(request_options, context):
            return False

        # recurse''', "R11.1", "leaf validators ignored by the dry run")
v("C11", "mask-wrong-index", "break", GAME,
  "            mask[i] = self.simulation._request_manager.check_valid(request, {})",
  "            mask[i - 1] = self.simulation._request_manager.check_valid(request, {})", "R11.2", "verdict stored at the neighbour's index")
v("C11", "mask-skips-entries", "break", GAME,
  '''            request = agent.action_manager.form_request(action_identifier=action[0], action_options=action[1])
            mask[i]''',
  '''            if action[0] == "do-nothing":
                continue
            request = agent.action_manager.form_request(action_identifier=action[0], action_options=action[1])
            mask[i]''', "R11.2", "some entries never get a verdict")
v("C11", "node-on-includes-booting", "break", BASE,
  '''            """Return whether the node is on or off."""
            return self.node.operating_state == NodeOperatingState.ON''',
  '''            """Return whether the node is on or off."""
            return self.node.operating_state in (NodeOperatingState.ON, NodeOperatingState.BOOTING)''', "R11.4", "node-is-on accepts BOOTING")
v("C11", "disabled-validator-inverted", "break", BASE,
  '''            """Return whether the NetworkInterface is disabled or not."""
            return not self.network_interface.enabled''',
  '''            """Return whether the NetworkInterface is disabled or not."""
            return self.network_interface.enabled''', "R11.4", "interface-disabled validator inverted")
v("C11", "not-deleted-ignores-flag", "break", FOLDER,
  '''            file = self.folder.get_file(file_name=request[0])
            return file is not None and not file.deleted''',
  '''            file = self.folder.get_file(file_name=request[0])
            return file is not None or not file.deleted''', "R11.4", "and -> or in the not-deleted predicate")
v("C11", "combined-any", "break", CORE,
  "        return all(x(request, context) for x in self.validators)",
  "        return any(x(request, context) for x in self.validators)", "R11.4", "combined validator passes when any part passes")
v("C11", "benign-validator-first-combined", "benign", CORE,
  '''        if not request_type.validator(request_options, context):
            return False

        # recurse if we are not at a leaf node
        if isinstance(request_type.func, RequestManager):
            return request_type.func.check_valid(request_options, context)

        return True''',
  '''        allowed = request_type.validator(request_options, context)
        if allowed and isinstance(request_type.func, RequestManager):
            return request_type.func.check_valid(request_options, context)
        return allowed''', None, "same predicate with the verdict in a local")
v("C11", "benign-is-operator", "benign", BASE,
  '''            """Return whether the node is on or off."""
            return self.node.operating_state == NodeOperatingState.OFF''',
  '''            """Return whether the node is on or off."""
            return self.node.operating_state is NodeOperatingState.OFF''', None, "== replaced by is")

v("C11", "dry-run-remembers-last-verdict", "break", CORE,
  '''        # a request refused at this level never reaches the sub-tree or the handler (mirrors __call__)
        if not request_type.validator(request_options, context):
            return False''',
  '''        # a request refused at this level never reaches the sub-tree or the handler (mirrors __call__)
        if context.setdefault(request_key, request_type.validator(request_options, context)) is False:
            return False''', "R11.5", "verdict memoised per key in the shared context")
v("C11", "pre-timestep-finishes-boot", "break", BASE,
  '''    def pre_timestep(self, timestep: int) -> None:
        """Apply pre-timestep logic."""
        super().pre_timestep(timestep)
        for network_interface in self.network_interfaces.values():
            network_interface.pre_timestep(timestep=timestep)''',
  '''    def pre_timestep(self, timestep: int) -> None:
        """Apply pre-timestep logic."""
        super().pre_timestep(timestep)
        if self.operating_state == NodeOperatingState.BOOTING and self.start_up_countdown <= 0:
            self.operating_state = NodeOperatingState.ON
        for network_interface in self.network_interfaces.values():
            network_interface.pre_timestep(timestep=timestep)''', "R11.5", "node state changes between mask and action")
v("C11", "pre-timestep-closes-idle-application", "break", APPLICATION_,
  '''        super().pre_timestep(timestep)
        self.num_executions = 0''',
  '''        super().pre_timestep(timestep)
        if self.num_executions == 0:
            self.close()
        self.num_executions = 0''', "R11.5", "life-cycle call in pre_timestep")
v("C11", "env-advances-before-acting", "break", ENV,
  '''        self.game.apply_agent_actions()
        self.game.advance_timestep()''',
  '''        self.game.advance_timestep()
        self.game.apply_agent_actions()''', "R11.5", "time advances between mask and action")
v("C11", "benign-pre-timestep-extra-counter", "benign", APPLICATION_,
  '''        super().pre_timestep(timestep)
        self.num_executions = 0''',
  '''        super().pre_timestep(timestep)
        self.num_executions = 0
        self._steps_seen = getattr(self, "_steps_seen", 0) + 1''', None, "another per-step counter")

v("C11", "benign-dry-run-collects-a-trace-locally", "benign", CORE,
  '''        request_key = request[0]
        request_options = request[1:]

        if request_key not in self.request_types:
            return False''',
  '''        request_key = request[0]
        request_options = request[1:]
        trail = []
        trail.append(request_key)

        if request_key not in self.request_types:
            return False''', None, "scratch list created and filled inside the call")

# ------------------------------------------------------------------------------------------------ C12
v("C12", "zero-duration-no-disable", "break", BASE,
  '''        if self.config.shut_down_duration <= 0:
            for network_interface in self.network_interfaces.values():
                network_interface.disable()
            self._shut_down_actions()''',
  '''        if self.config.shut_down_duration <= 0:
            self._shut_down_actions()''', "R12.2", "the original defect")
v("C12", "power-on-from-any-state", "break", BASE,
  '''        if self.operating_state == NodeOperatingState.OFF:
            self.operating_state = NodeOperatingState.BOOTING''',
  '''        if self.operating_state != NodeOperatingState.BOOTING:
            self.operating_state = NodeOperatingState.BOOTING''', "R12.1", "ON/SHUTTING_DOWN -> BOOTING")
v("C12", "boot-skips-to-off", "break", BASE,
  '''            if self.operating_state == NodeOperatingState.BOOTING:
                self.operating_state = NodeOperatingState.ON''',
  '''            if self.operating_state == NodeOperatingState.BOOTING:
                self.operating_state = NodeOperatingState.OFF''', "R12.1", "BOOTING -> OFF")
v("C12", "extra-state-writer", "break", BASE,
  '''        self.node_scan_countdown = max(self.config.node_scan_duration, 1)
        return True''',
  '''        self.node_scan_countdown = max(self.config.node_scan_duration, 1)
        self.operating_state = NodeOperatingState.ON
        return True''', "R12.1", "Node.scan switches the node on")
v("C12", "enable-ignores-power", "break", BASE,
  '''        if self._connected_node.operating_state != NodeOperatingState.ON:
            self._connected_node.sys_log.warning(
                f"Interface {self} cannot be enabled as the connected Node is not powered on"
            )
            return False

        if not self._connected_link:''',
  '''        if not self._connected_link:''', "R12.2", "interfaces can be enabled on a node that is off")
v("C12", "acl-route-unguarded", "break", ROUTER,
  'rm.add_request("acl", RequestType(func=self.acl._request_manager, validator=_node_is_on))',
  'rm.add_request("acl", RequestType(func=self.acl._request_manager))', "R12.3", "the original defect")
v("C12", "shutdown-route-requires-off", "break", BASE,
  '''                func=lambda request, context: RequestResponse.from_bool(self.power_off()), validator=_node_is_on''',
  '''                func=lambda request, context: RequestResponse.from_bool(self.power_off()), validator=_node_is_off''', "R12.3", "shutdown guarded by node-is-off")
v("C12", "shutdown-keeps-software", "break", BASE,
  '''                self.sys_log.info(f"{self.config.hostname}: Turned off")
                self._shut_down_actions()''',
  '''                self.sys_log.info(f"{self.config.hostname}: Turned off")''', "R12.5", "services keep running on an OFF node")
v("C12", "software-ignores-power", "break", P + "simulator/system/software.py",
  '''                f"{self.name} Error: {self.software_manager.node.config.hostname} is not powered on."
            )
            return False
        return True''',
  '''                f"{self.name} Error: {self.software_manager.node.config.hostname} is not powered on."
            )
        return True''', "R12.5", "software acts although its node is not ON")
v("C12", "start-up-skips-apps", "break", BASE,
  '''        for app_id in self.applications:
            self.applications[app_id].run()''',
  '''        for app_id in self.applications:
            if self.applications[app_id].health_state_actual:
                continue
            self.applications[app_id].run()''', "R12.5", "applications are not restarted on power-on")
v("C12", "benign-state-in-tuple", "benign", BASE,
  '''        if self.operating_state == NodeOperatingState.ON:
            for network_interface in self.network_interfaces.values():
                network_interface.disable()
            self.operating_state = NodeOperatingState.SHUTTING_DOWN''',
  '''        if self.operating_state in (NodeOperatingState.ON,):
            for network_interface in self.network_interfaces.values():
                network_interface.disable()
            self.operating_state = NodeOperatingState.SHUTTING_DOWN''', None, "== ON written as membership")
v("C12", "benign-early-return", "benign", BASE,
  '''        if self.operating_state == NodeOperatingState.OFF:
            self.operating_state = NodeOperatingState.BOOTING
            self.config.start_up_countdown = self.config.start_up_duration
            return True

        return False''',
  '''        if self.operating_state != NodeOperatingState.OFF:
            return False
        self.operating_state = NodeOperatingState.BOOTING
        self.config.start_up_countdown = self.config.start_up_duration
        return True''', None, "guard inverted into an early return")

# ------------------------------------------------------------------------------------------------ C01
v("C01", "double-tick", "break", GAME,
  '''        self.step_counter += 1
        _LOGGER.debug(f"Advancing timestep to {self.step_counter} ")''',
  '''        self.step_counter += 1
        if self.step_counter % 50 == 0:
            self.step_counter += 1
        _LOGGER.debug(f"Advancing timestep to {self.step_counter} ")''', "R1.1", "clock jumps by two every 50 steps")
v("C01", "obs-before-tick", "break", ENV,
  '''        self.game.advance_timestep()
        state = self.game.get_sim_state()
        self.game.update_agents(state)
''',
  '''        state = self.game.get_sim_state()
        self.game.update_agents(state)
        self.game.advance_timestep()
''', "R1.1", "agents are updated before the simulation ticks")
v("C01", "truncated-off-by-one", "break", GAME,
  "        if current_step >= max_steps:", "        if current_step > max_steps:", "R1.2", "truncated one step late")
v("C01", "truncated-before-tick", "break", ENV,
  '''        step = self.game.step_counter
        self.agent.store_action(action)''',
  '''        step = self.game.step_counter
        truncated = self.game.calculate_truncated()
        self.agent.store_action(action)''', "R1.2", "truncation evaluated before the tick (second assignment later shadows? no: both)")
v("C01", "terminated-sometimes-true", "break", ENV,
  "        terminated = False", "        terminated = reward < -100", "R1.2", "terminated depends on the reward")
v("C01", "agents-skipped", "break", GAME,
  '''            obs = agent.observation_manager.current_observation
            action_choice, parameters = agent.get_action(obs, timestep=self.step_counter)''',
  '''            obs = agent.observation_manager.current_observation
            if agent.config.team == "GREEN" and self.step_counter % 2:
                continue
            action_choice, parameters = agent.get_action(obs, timestep=self.step_counter)''', "R1.3", "green agents get no record on odd steps")
v("C01", "reset-keeps-game", "break", ENV,
  '''        self.game: PrimaiteGame = PrimaiteGame.from_config(cfg=self.episode_scheduler(self.episode_counter))
        self.game.setup_for_episode(episode=self.episode_counter)''',
  '''        if options and options.get("rebuild"):
            self.game: PrimaiteGame = PrimaiteGame.from_config(cfg=self.episode_scheduler(self.episode_counter))
        self.game.setup_for_episode(episode=self.episode_counter)''', "R1.4", "reset only rebuilds the game on request")
v("C01", "handler-returns-none", "break", BASE,
  '''            if application_name in self.software_manager.software:
                return RequestResponse.from_bool(True)
            else:
                return RequestResponse.from_bool(False)

        def _uninstall_application''',
  '''            if application_name in self.software_manager.software:
                return RequestResponse.from_bool(True)

        def _uninstall_application''', "R1.5", "install handler falls off the end")
v("C01", "from-bool-gets-none", "break", BASE,
  '''            self.users[username].disabled = True
            self.sys_log.info(f"{self.name}: User disabled: {username}")
            return True''',
  '''            self.users[username].disabled = True
            self.sys_log.info(f"{self.name}: User disabled: {username}")
            return''', "R1.5", "disable_user returns None on success")
v("C01", "override-signature", "break", P + "game/agent/scripted_agents/random_agent.py",
  "    def get_action(self, obs: ObsType = None, timestep: int = 0) -> Tuple[str, Dict]:",
  "    def get_action(self) -> Tuple[str, Dict]:", "R1.6", "the original defect")
v("C01", "raise-in-pipeline", "break", GAME,
  '''            request = agent.format_request(action_choice, parameters)
            response = self.simulation.apply_request(request)''',
  '''            request = agent.format_request(action_choice, parameters)
            if not request:
                raise ValueError("empty request")
            response = self.simulation.apply_request(request)''', "R1.7", "raise inside apply_agent_actions")
v("C01", "nmap-deref", "break", SWM,
  '''            nmap = self.software.get("nmap")
            if nmap and self._is_running(nmap):
                nmap.receive(payload=payload, session_id=session_id)
            else:
                self.sys_log.warning("Port scan payload dropped as nmap is not installed or not running")
            return''',
  '''            self.software.get("nmap").receive(payload=payload, session_id=session_id)
            return''', "R1.7", "the original defect")
v("C01", "raise-in-handler-closure", "break", BASE,
  "    def reveal_to_red(self) -> bool:\n        \"\"\"\n        Reveals the node and all the items within it to the red agent.",
  "    def reveal_to_red(self) -> bool:\n        \"\"\"\n        Reveals the node and all the items within it to the red agent.\n        \"\"\"\n        if self.red_scan_countdown > 0:\n            raise RuntimeError(\"scan already running\")\n        \"\"\"", "R1.8", "a second 'scan' request while one is running raises out of step")
v("C01", "benign-truncated-direct", "benign", GAME,
  '''        if current_step >= max_steps:
            return True
        return False''',
  '''        return not current_step < max_steps''', None, "boolean returned directly, comparison negated")
v("C01", "benign-info-reordered", "benign", ENV,
  '''        terminated = False
        truncated = self.game.calculate_truncated()''',
  '''        truncated = self.game.calculate_truncated()
        terminated = False''', None, "independent statements swapped")

# ------------------------------------------------------------------------------------------------ C06
v("C06", "arp-learn-before-verdict", "break", ROUTER,
  '''        if self.subject_to_acl(frame=frame):
            # Check if it's permitted
            permitted, rule = self.acl.is_permitted(frame)
        else:
            permitted = True
            rule = None

        if not permitted:
            at_port = self._get_port_of_nic(from_network_interface)
            self.sys_log.info(f"Frame blocked at port {at_port} by rule {rule}")
            return

        if frame.ip and self.software_manager.arp:
            self.software_manager.arp.add_arp_cache_entry(
                ip_address=frame.ip.src_ip_address,
                mac_address=frame.ethernet.src_mac_addr,
                network_interface=from_network_interface,
            )
''',
  '''        if frame.ip and self.software_manager.arp:
            self.software_manager.arp.add_arp_cache_entry(
                ip_address=frame.ip.src_ip_address,
                mac_address=frame.ethernet.src_mac_addr,
                network_interface=from_network_interface,
            )

        if self.subject_to_acl(frame=frame):
            # Check if it's permitted
            permitted, rule = self.acl.is_permitted(frame)
        else:
            permitted = True
            rule = None

        if not permitted:
            at_port = self._get_port_of_nic(from_network_interface)
            self.sys_log.info(f"Frame blocked at port {at_port} by rule {rule}")
            return
''', "R6.1", "a denied frame still teaches the router its sender's address")
v("C06", "denied-frame-logged-not-dropped", "break", ROUTER,
  '''            self.sys_log.info(f"Frame blocked at port {at_port} by rule {rule}")
            return

        if frame.ip and self.software_manager.arp:''',
  '''            self.sys_log.info(f"Frame blocked at port {at_port} by rule {rule}")

        if frame.ip and self.software_manager.arp:''', "R6.1", "missing return after the deny log")
v("C06", "firewall-wrong-acl", "break", FIREWALL,
  '''        permitted, rule = self.dmz_inbound_acl.is_permitted(frame=frame)
        if not permitted:
            self.sys_log.info(f"Frame blocked at DMZ inbound by rule {rule}")''',
  '''        permitted, rule = self.dmz_outbound_acl.is_permitted(frame=frame)
        if not permitted:
            self.sys_log.info(f"Frame blocked at DMZ inbound by rule {rule}")''', "R6.1", "DMZ inbound consults the outbound list")
v("C06", "firewall-skips-destination-check", "break", FIREWALL,
  '''                # Otherwise, process the frame as internal inbound
                self._process_internal_inbound_frame(frame, from_network_interface)''',
  '''                # Otherwise, process the frame as internal inbound
                self.process_frame(frame=frame, from_network_interface=from_network_interface)''', "R6.1", "external->internal skips the internal inbound list")
v("C06", "firewall-port-misrouted", "break", FIREWALL,
  '''        elif from_network_interface == self.dmz_port:
            self._process_dmz_outbound_frame(frame, from_network_interface)''',
  '''        elif from_network_interface == self.dmz_port:
            self._process_internal_outbound_frame(frame, from_network_interface)''', "R6.1", "DMZ traffic judged by the internal list")
v("C06", "software-reaches-network", "break", P + "simulator/system/services/dns/dns_client.py",
  '''        if self.parent and not self.dns_server:''',
  '''        if self.parent and self.parent.parent and not self.dns_server:''', "R6.2", "software walks up to the Network container")
v("C06", "direct-delivery", "break", P + "simulator/system/services/arp/arp.py",
  '''    def show(self, markdown: bool = False):''',
  '''    def _inject(self, nic, frame):
        nic.receive_frame(frame)

    def show(self, markdown: bool = False):''', "R6.2", "software hands a frame straight to an interface")
v("C06", "send-on-disabled", "break", BASE,
  '''        if not self.enabled:
            return False
        if not self._connected_link.can_transmit_frame(frame):
            # Drop frame for now. Queuing will happen here (probably) if it's done in the future.
            self._connected_node.sys_log.info(f"{self}: Frame dropped as Link is at capacity")
            return False
        super().send_frame(frame)''',
  '''        if not self._connected_link.can_transmit_frame(frame):
            # Drop frame for now. Queuing will happen here (probably) if it's done in the future.
            self._connected_node.sys_log.info(f"{self}: Frame dropped as Link is at capacity")
            return False
        super().send_frame(frame)''', "R6.3", "a disabled NIC still sends")
v("C06", "link-up-with-one-end", "break", BASE,
  "        return self.endpoint_a.enabled and self.endpoint_b.enabled",
  "        return self.endpoint_a.enabled or self.endpoint_b.enabled", "R6.3", "link counts as up with one end disabled")
v("C06", "benign-verdict-subscript", "benign", FIREWALL,
  '''        permitted, rule = self.external_outbound_acl.is_permitted(frame=frame)
        if not permitted:
            self.sys_log.info(f"Frame blocked at external outbound by rule {rule}")
            return

        self.process_frame(frame=frame, from_network_interface=from_network_interface)''',
  '''        permitted, rule = self.external_outbound_acl.is_permitted(frame=frame)
        if permitted:
            self.process_frame(frame=frame, from_network_interface=from_network_interface)
        else:
            self.sys_log.info(f"Frame blocked at external outbound by rule {rule}")''', None, "early return turned into if/else")

v("C06", "revert-b032f1d-internal-outbound-by-subnet", "break", FIREWALL,
  '''            if self._leaves_by_dmz_port(frame.ip.dst_ip_address):
                self._process_dmz_inbound_frame(frame, from_network_interface)
            else:
                # If the frame does not leave by the DMZ port''',
  '''            if frame.ip.dst_ip_address in self.dmz_port.ip_network:
                self._process_dmz_inbound_frame(frame, from_network_interface)
            else:
                # If the frame does not leave by the DMZ port''', "R6.4", "zone chosen by the DMZ port's own subnet only")
v("C06", "helper-forgets-the-route-table", "break", FIREWALL,
  '''        route = self.route_table.find_best_route(dst_ip_address)
        return route is not None and route.next_hop_ip_address in self.dmz_port.ip_network''',
  '''        return False''', "R6.4", "predicate helper no longer consults the routes")
v("C06", "helper-selects-the-wrong-port", "break", FIREWALL,
  '''        if dst_ip_address in self.dmz_port.ip_network:
            return True
        if dst_ip_address in self.internal_port.ip_network or dst_ip_address in self.external_port.ip_network:
            return False''',
  '''        if dst_ip_address in self.internal_port.ip_network:
            return True
        if dst_ip_address in self.dmz_port.ip_network or dst_ip_address in self.external_port.ip_network:
            return False''', "R6.1", "DMZ predicate answers for the internal subnet")
v("C06", "benign-helper-inlined-as-local", "benign", FIREWALL,
  '''            if self._leaves_by_dmz_port(frame.ip.dst_ip_address):
                self._process_dmz_inbound_frame(frame, from_network_interface)
            else:
                # Otherwise, process the frame as internal inbound''',
  '''            to_dmz = self._leaves_by_dmz_port(frame.ip.dst_ip_address)
            if to_dmz:
                self._process_dmz_inbound_frame(frame, from_network_interface)
            else:
                # Otherwise, process the frame as internal inbound''', None, "predicate bound to a local first")

# ------------------------------------------------------------------------------------------------ C07
v("C07", "scan-continues", "break", ROUTER,
  '''            if rule_match:
                rule = _rule
                break''',
  '''            if rule_match:
                rule = _rule''', "R7.1", "last matching rule wins")
v("C07", "scan-reversed", "break", ROUTER,
  "        for _rule in self._acl:\n            if not _rule:\n                continue\n\n            permitted",
  "        for _rule in reversed(self._acl):\n            if not _rule:\n                continue\n\n            permitted", "R7.1", "highest position first")
v("C07", "implicit-always", "break", ROUTER,
  '''        if not rule:
            permitted = self.implicit_action == ACLAction.PERMIT
            rule = self.implicit_rule''',
  '''        if not permitted:
            permitted = self.implicit_action == ACLAction.PERMIT
            rule = self.implicit_rule''', "R7.1", "implicit action overrides an explicit deny")
v("C07", "hit-counter-on-every-rule", "break", ROUTER,
  '''            permitted, rule_match = _rule.permit_frame_check(frame)
            if rule_match:''',
  '''            permitted, rule_match = _rule.permit_frame_check(frame)
            _rule.match_count += 1
            if rule_match:''', "R7.1", "every inspected rule is counted")
v("C07", "dst-port-ignored", "break", ROUTER,
  "        if protocol_matches and src_ip_matches and dst_ip_matches and src_port_matches and dst_port_matches:",
  "        if protocol_matches and src_ip_matches and dst_ip_matches and src_port_matches:", "R7.2", "destination port no longer consulted")
v("C07", "src-dst-swapped", "break", ROUTER,
  "                dst_ip_matches = frame.ip.dst_ip_address == self.dst_ip_address",
  "                dst_ip_matches = frame.ip.src_ip_address == self.dst_ip_address", "R7.2", "destination rule compared with the source address")
v("C07", "deny-rule-permits", "break", ROUTER,
  "            permitted = self.action == ACLAction.PERMIT", "            permitted = self.action != ACLAction.PERMIT", "R7.2", "verdict inverted")
v("C07", "mask-args-swapped", "break", ROUTER,
  '''                    ip_to_check=frame.ip.src_ip_address,
                    base_ip=self.src_ip_address,
                    wildcard_mask=self.src_wildcard_mask,''',
  '''                    ip_to_check=frame.ip.src_ip_address,
                    base_ip=self.src_ip_address,
                    wildcard_mask=self.dst_wildcard_mask,''', "R7.2", "source range uses the destination mask")
C.setdefault("C07", []).append({"id": "add-rule-shifts", "kind": "break", "file": ROUTER, "rule": "R7.3",
                                "what": "add_rule inserts and shifts the later rules",
                                "edits": [{"old": "            self._acl[position] = ACLRule(", "new": "            self._acl.insert(position, ACLRule("},
                                          {"old": "                dst_port=dst_port,\n            )\n            return True\n        else:\n            raise ValueError(f\"Cannot add ACL rule",
                                           "new": "                dst_port=dst_port,\n            ))\n            return True\n        else:\n            raise ValueError(f\"Cannot add ACL rule"}]})
v("C07", "bounds-too-wide", "break", ROUTER,
  "        if 0 <= position < self.max_acl_rules - 1:\n            if self._acl[position]:",
  "        if 0 <= position < self.max_acl_rules:\n            if self._acl[position]:", "R7.3", "the original defect")
v("C07", "handler-index-swapped", "break", ROUTER,
  '''                        src_port=None if request[4] == "ALL" else request[4],
                        dst_ip_address=None if request[5] == "ALL" else IPv4Address(request[5]),''',
  '''                        src_port=None if request[5] == "ALL" else request[5],
                        dst_ip_address=None if request[4] == "ALL" else IPv4Address(request[4]),''', "R7.4", "handler reads two parameters crosswise")
v("C07", "config-position-ignored", "break", ROUTER,
  '''                    dst_wildcard_mask=r_cfg.get("dst_wildcard_mask"),
                    position=r_num,
                )
        if routes:''',
  '''                    dst_wildcard_mask=r_cfg.get("dst_wildcard_mask"),
                    position=len(acl) - 1,
                )
        if routes:''', "R7.4", "scenario-file rules all land on one position")
v("C07", "firewall-parser-wrong-list", "break", FIREWALL,
  '''                for r_num, r_cfg in config["acl"]["dmz_outbound_acl"].items():
                    firewall.dmz_outbound_acl.add_rule(''',
  '''                for r_num, r_cfg in config["acl"]["dmz_outbound_acl"].items():
                    firewall.dmz_inbound_acl.add_rule(''', "R7.4", "dmz_outbound rules loaded into the inbound list")
v("C07", "mask-not-negated", "break", ROUTER,
  "    masked_base_ip = base_ip_int & ~wildcard_int\n    masked_ip_to_check = ip_to_check_int & ~wildcard_int",
  "    masked_base_ip = base_ip_int & wildcard_int\n    masked_ip_to_check = ip_to_check_int & wildcard_int", "R7.5", "the mask selects the bits to compare instead of the bits to ignore")
v("C07", "mask-one-side", "break", ROUTER,
  "    masked_ip_to_check = ip_to_check_int & ~wildcard_int", "    masked_ip_to_check = ip_to_check_int", "R7.5", "only the base address is masked")
v("C07", "mask-by-prefix-length", "break", ROUTER,
  '''    masked_base_ip = base_ip_int & ~wildcard_int
    masked_ip_to_check = ip_to_check_int & ~wildcard_int''',
  '''    host_bits = wildcard_int.bit_length()
    masked_base_ip = base_ip_int >> host_bits
    masked_ip_to_check = ip_to_check_int >> host_bits''', "R7.5", "treats every wildcard as a contiguous low-order block")
v("C07", "mask-by-subtraction", "break", ROUTER,
  '''    masked_base_ip = base_ip_int & ~wildcard_int
    masked_ip_to_check = ip_to_check_int & ~wildcard_int''',
  '''    masked_base_ip = base_ip_int - wildcard_int
    masked_ip_to_check = ip_to_check_int - (ip_to_check_int & wildcard_int)''', "R7.5", "arithmetic form that is wrong when the base has wildcard bits clear")
v("C07", "benign-xor-form", "benign", ROUTER,
  "    return masked_base_ip == masked_ip_to_check", "    return (base_ip_int ^ ip_to_check_int) & ~wildcard_int == 0", None, "same predicate written with xor")
v("C07", "benign-break-to-return-shape", "benign", ROUTER,
  '''        if not rule:
            permitted = self.implicit_action == ACLAction.PERMIT
            rule = self.implicit_rule''',
  '''        if rule is None:
            permitted = self.implicit_action == ACLAction.PERMIT
            rule = self.implicit_rule''', None, "not rule -> rule is None")

# ------------------------------------------------------------------------------------------------ C08
v("C08", "nic-no-ttl-check", "break", HOSTNODE,
  '''            frame.decrement_ttl()
            if frame.ip and frame.ip.ttl < 1:
                self._connected_node.sys_log.info(f"Frame discarded at {self} as TTL limit reached")
                return False
            frame.set_received_timestamp()''',
  '''            frame.decrement_ttl()
            frame.set_received_timestamp()''', "R8.1", "expired frames are delivered")
v("C08", "router-forward-no-decrement", "break", ROUTER,
  '''            self.sys_log.info(f"Forwarding frame to internally from port {from_port} to port {to_port}")
            frame.decrement_ttl()
            if frame.ip and frame.ip.ttl < 1:''',
  '''            self.sys_log.info(f"Forwarding frame to internally from port {from_port} to port {to_port}")
            if frame.ip and frame.ip.ttl < 1:''', "R8.1", "forwarding no longer lowers the TTL")
v("C08", "ttl-check-off-by-one", "break", SWITCH,
  "            if frame.ip and frame.ip.ttl < 1:", "            if frame.ip and frame.ip.ttl < 0:", "R8.1", "ttl 0 frames pass the switch")
v("C08", "nic-accepts-foreign-mac", "break", HOSTNODE,
  '''                if frame.ethernet.dst_mac_addr == self.mac_address:
                    accept_frame = True''',
  '''                if frame.ethernet.dst_mac_addr:
                    accept_frame = True''', "R8.2", "unicast frames for other hosts are processed")
v("C08", "nic-accepts-any-broadcast", "break", HOSTNODE,
  '''                if frame.ip.dst_ip_address in {self.ip_address, self.ip_network.broadcast_address}:
                    accept_frame = True''',
  '''                accept_frame = True''', "R8.2", "layer-2 broadcast accepted whatever its IP destination")
v("C08", "retry-unbounded", "break", NMAP,
  "is_re_attempt=True", "is_re_attempt=is_re_attempt", "R8.3", "retry flag no longer raised: unbounded recursion")
v("C08", "route-prefers-shorter-prefix", "break", ROUTER,
  "                if prefix_len > longest_prefix or (prefix_len == longest_prefix and route.metric < lowest_metric):",
  "                if prefix_len < longest_prefix or (prefix_len == longest_prefix and route.metric < lowest_metric):", "R8.5", None)
v("C08", "route-metric-ignored-on-tie", "break", ROUTER,
  "                if prefix_len > longest_prefix or (prefix_len == longest_prefix and route.metric < lowest_metric):",
  "                if prefix_len >= longest_prefix:", "R8.5", "on equal prefix the later route wins whatever its metric")
v("C08", "route-without-membership", "break", ROUTER,
  "            if destination_ip in route_network:\n                if prefix_len", "            if route_network:\n                if prefix_len", "R8.5", "routes that do not contain the destination compete")
v("C08", "default-overrides", "break", ROUTER,
  "        if not best_route and self.default_route:", "        if self.default_route:", "R8.4", "default route always wins")
v("C08", "benign-guard-nested", "benign", ROUTER,
  "                if prefix_len > longest_prefix or (prefix_len == longest_prefix and route.metric < lowest_metric):",
  "                if longest_prefix < prefix_len or (longest_prefix == prefix_len and lowest_metric > route.metric):", None, "operands swapped")
v("C08", "benign-ttl-le-zero", "benign", SWITCH,
  "            if frame.ip and frame.ip.ttl < 1:", "            if frame.ip and frame.ip.ttl <= 0:", None, "< 1 written as <= 0")

# ------------------------------------------------------------------------------------------------ C18
v("C18", "no-admission-test", "break", SWITCH,
  '''        if not self._connected_link.can_transmit_frame(frame):
            # Drop frame for now. Queuing will happen here (probably) if it's done in the future.
            self._connected_node.sys_log.info(f"{self}: Frame dropped as Link is at capacity")
            return False

        self.pcap.capture_outbound(frame)''',
  '''        self.pcap.capture_outbound(frame)''', "R18.1", "switch ports send without asking the link")
v("C18", "admission-ignores-load", "break", BASE,
  "            return self.current_load + frame.size_Mbits <= self.bandwidth",
  "            return frame.size_Mbits <= self.bandwidth", "R18.1", "each frame judged alone")
v("C18", "admission-strict", "break", BASE,
  "            return self.current_load + frame.size_Mbits <= self.bandwidth",
  "            return self.current_load + frame.size_Mbits < self.bandwidth", "R18.1", "exact fit refused (contract: <=)")
v("C18", "admission-ignores-down", "break", BASE,
  '''        if self.is_up:
            frame_size_Mbits = frame.size_Mbits  # noqa - Leaving it as Mbits as this is how they're expressed
            return self.current_load + frame.size_Mbits <= self.bandwidth
        return False''',
  '''        frame_size_Mbits = frame.size_Mbits  # noqa - Leaving it as Mbits as this is how they're expressed
        return self.current_load + frame.size_Mbits <= self.bandwidth''', "R18.1", "down links admit frames")
v("C18", "observation-resets-load", "break", P + "simulator/network/hardware/base.py",
  '''    def current_load_percent(self) -> str:
        """Get the current load formatted as a percentage string."""
        return''',
  '''    def current_load_percent(self) -> str:
        """Get the current load formatted as a percentage string."""
        if self.current_load > self.bandwidth:
            self.current_load = self.bandwidth
        return''', "R18.2", "a reader clamps the counter")
v("C18", "no-per-tick-reset", "break", CONTAINER,
  '''        for link in self.links.values():
            link.pre_timestep(timestep)''',
  '''        for link in self.links.values():
            if link.is_up:
                continue
            link.pre_timestep(timestep)''', "R18.3", "live links keep yesterday's load")
v("C18", "account-after-delivery", "break", BASE,
  '''        load_before = self.current_load
        self.current_load += frame_size
        if receiver.receive_frame(frame):
            # Frame transmitted successfully
            _LOGGER.debug(''',
  '''        load_before = self.current_load
        if receiver.receive_frame(frame):
            # Frame transmitted successfully
            self.current_load += frame_size
            _LOGGER.debug(''', "R18.4", "the original defect")
v("C18", "airspace-account-after", "break", AIRSPACE,
  '''        self.bandwidth_load[sender_network_interface.frequency.frequency_hz] += frame.size_Mbits
        for wireless_interface in self.wireless_interfaces_by_frequency.get(
            sender_network_interface.frequency.frequency_hz, []
        ):
            if wireless_interface != sender_network_interface and wireless_interface.enabled:
                wireless_interface.receive_frame(frame)''',
  '''        for wireless_interface in self.wireless_interfaces_by_frequency.get(
            sender_network_interface.frequency.frequency_hz, []
        ):
            if wireless_interface != sender_network_interface and wireless_interface.enabled:
                wireless_interface.receive_frame(frame)
        self.bandwidth_load[sender_network_interface.frequency.frequency_hz] += frame.size_Mbits''', "R18.4", None)
C.setdefault("C18", []).append({"id": "benign-extract-method", "kind": "benign", "file": BASE, "rule": None,
                                "what": "accounting moved into a private helper called from transmit_frame",
                                "edits": [{"old": "        load_before = self.current_load\n        self.current_load += frame_size\n",
                                           "new": "        load_before = self.current_load\n        self._account(frame_size)\n"},
                                          {"old": "    def __str__(self) -> str:\n        return f\"{self.endpoint_a}<-->{self.endpoint_b}\"",
                                           "new": "    def _account(self, amount: float) -> None:\n        self.current_load += amount\n\n    def __str__(self) -> str:\n        return f\"{self.endpoint_a}<-->{self.endpoint_b}\""}]})
v("C18", "overwrite-after-delivery", "break", BASE,
  "            return True\n        # the receiver did not take the frame (and so sent nothing): it does not count towards the load\n        self.current_load = load_before\n        return False",
  "            self.current_load = load_before + frame_size\n            return True\n        # the receiver did not take the frame (and so sent nothing): it does not count towards the load\n        self.current_load = load_before\n        return False",
  "R18.4", "load of frames sent during the delivery is wiped")
v("C18", "unaccounted-path", "break", AIRSPACE,
  "        self.bandwidth_load[sender_network_interface.frequency.frequency_hz] += frame.size_Mbits\n        for wireless_interface",
  "        if frame.is_broadcast:\n            self.bandwidth_load[sender_network_interface.frequency.frequency_hz] += frame.size_Mbits\n        for wireless_interface",
  "R18.4", "only broadcasts are accounted")
v("C18", "benign-admission-swapped", "benign", BASE,
  "            return self.current_load + frame.size_Mbits <= self.bandwidth",
  "            return self.bandwidth >= frame.size_Mbits + self.current_load", None, "operands swapped")

v("C14", "revert-937febc-folder-scan-armed-with-zero", "break", FOLDER,
  "            self.scan_countdown = max(self.scan_duration, 1)",
  "            self.scan_countdown = self.scan_duration", "R14.6", "duration 0 never completes")
v("C14", "revert-90d269d-node-scan-armed-with-zero", "break", BASE,
  "        self.node_scan_countdown = max(self.config.node_scan_duration, 1)",
  "        self.node_scan_countdown = self.config.node_scan_duration", "R14.6", "duration 0 never scans")
v("C14", "fix-completion-tested-with-equality", "break", P + "simulator/system/software.py",
  "        if self._fixing_countdown <= 0:",
  "        if self._fixing_countdown == 0:", "R14.6", "fixing_duration 0 stays FIXING forever")
v("C14", "node-scan-skips-closed-applications", "break", BASE,
  '''                    for application_id in self.applications:
                        self.applications[application_id].scan()''',
  '''                    for application_id in self.applications:
                        if self.applications[application_id].operating_state.name == "RUNNING":
                            self.applications[application_id].scan()''', "R14.6", "scan fan-out conditional")
v("C14", "folder-scan-default-from-restore-default", "break", FS,
  "            folder.scan_duration = self._default_folder_scan_duration",
  "            folder.scan_duration = self._default_folder_restore_duration", "R14.6", "duration taken from another setting")
v("C14", "benign-arming-with-max-swapped", "benign", FOLDER,
  "            self.restore_countdown = max(self.restore_duration, 1)",
  "            self.restore_countdown = max(1, self.restore_duration)", None, "operands of max swapped")

# ------------------------------------------------------------------------------------------------ C15
v("C15", "restore-keeps-deleted-entry", "break", FOLDER,
  '''        if file.deleted:
            self.deleted_files.pop(file.uuid)

        file.restore()
        self.files[file.uuid] = file''',
  '''        file.restore()
        self.files[file.uuid] = file

        if file.deleted:
            self.deleted_files.pop(file.uuid)''', "R15.1", "the original defect")
v("C15", "remove-forgets-deleted-set", "break", FOLDER,
  '''            self.files.pop(file.uuid)
            self.deleted_files[file.uuid] = file
            file.delete()''',
  '''            self.files.pop(file.uuid)
            file.delete()''', "R15.1", "a removed file is neither live nor deleted")
v("C15", "delete-folder-stays-live", "break", FS,
  '''        # remove from folder list
        self.folders.pop(folder.uuid)
''',
  '''''', "R15.1", "deleted folder stays in the live dictionary")
v("C15", "restore-folder-flag", "break", FOLDER,
  '''        if self.deleted:
            self.deleted = False

        if self.restore_countdown <= 0:''',
  '''        if self.restore_countdown <= 0:''', "R15.1", "restored folder keeps its deleted flag")
v("C15", "counter-not-reset", "break", FS,
  '''        # reset number of file deletions
        self.num_file_deletions = 0
''',
  '''''', "R15.2", "deletion counter accumulates over ticks")
v("C15", "state-omits-deleted", "break", FS,
  '        state["deleted_folders"] = {folder.name: folder.describe_state() for folder in self.deleted_folders.values()}',
  '        state["deleted_folders"] = {folder.name: folder.describe_state() for folder in self.folders.values()}', "R15.3", "deleted_folders lists the live ones")
v("C15", "lookup-with-object", "break", FS,
  "        file = folder.get_file(file_name)\n        if file:\n            self.sys_log.info(f\"Cannot create file",
  "        file = self.get_file(folder, file_name)\n        if file:\n            self.sys_log.info(f\"Cannot create file", "R15.4", "the original defect")
v("C15", "handler-no-exists-check", "break", FS,
  '''            if not request[2] and self.get_file(folder_name=request[0], file_name=request[1]):
                self.sys_log.info(f"Cannot create file {request[1]} as it already exists.")
                return RequestResponse(status="failure", data={"reason": "file already exists"})
            file = self.create_file(''',
  '''            file = self.create_file(''', "R15.4", "create request for an existing file raises")
v("C15", "duplicate-name-allowed", "break", FOLDER,
  '''        if self.get_file(file.name) is not None and not force:
            raise Exception(f"File with name {file.name} already exists in folder")

''',
  '''''', "R15.4", "two live files may share a name")
v("C15", "force-ignored", "break", ACT_FILE,
  '''            config.file_name,
            config.force,
        ]''',
  '''            config.file_name,
            config.verb,
        ]''', "R15.5", "the original defect")
v("C15", "force-always-builds-a-new-file", "break", FS,
  '''        file = folder.get_file(file_name)
        if file:
            self.sys_log.info(f"Cannot create file {file_name} as it already exists.")
            if force:
                self.sys_log.info(f"Replacing {file_name}")
        else:''',
  '''        file = folder.get_file(file_name)
        if file and not force:
            self.sys_log.info(f"Cannot create file {file_name} as it already exists.")
        else:''', "R15.6", "force inserts a second object under the live name")
v("C15", "copy-file-gets-a-second-caller", "break", FS,
  '''            # add file to dst
            dst_folder.add_file(file)''',
  '''            # add file to dst
            self.copy_file(src_folder_name, src_file_name, dst_folder_name)''', "R15.6", "forced copy reached without the delete that protects it")
v("C15", "benign-lookup-compared-with-none", "benign", FS,
  '''        file = folder.get_file(file_name)
        if file:
            self.sys_log.info(f"Cannot create file {file_name} as it already exists.")''',
  '''        file = folder.get_file(file_name)
        if file is not None:
            self.sys_log.info(f"Cannot create file {file_name} as it already exists.")''', None, "explicit None test")
v("C15", "benign-pop-default", "benign", FOLDER,
  '''        if file.deleted:
            self.deleted_files.pop(file.uuid)

        file.restore()''',
  '''        if file.deleted:
            self.deleted_files.pop(file.uuid, None)

        file.restore()''', None, "pop with a default")

v("C01", "revert-0445172-logout-pop-without-default", "break", BASE,
  "            session = self.remote_sessions.pop(remote_session_id, None)",
  "            session = self.remote_sessions.pop(remote_session_id)", "R1.10", "unknown session id raises KeyError out of the request")
v("C01", "revert-610b682-timeout-pop-without-default", "break", BASE,
  "            self.parent.terminal._connections.pop(session.uuid, None)",
  "            self.parent.terminal._connections.pop(session.uuid)", "R1.10", "time-out of a session without terminal connection raises")
v("C01", "uninstall-loses-its-presence-test", "break", SWM,
  '''        if software_name not in self.software:
            self.sys_log.error(f"Cannot uninstall {software_name} as it is not installed")
            return

''',
  "", "R1.10", "uninstall of an unknown name raises KeyError")
v("C01", "benign-logout-guarded-by-membership", "benign", BASE,
  "            session = self.remote_sessions.pop(remote_session_id, None)",
  "            session = self.remote_sessions.pop(remote_session_id) if remote_session_id in self.remote_sessions else None", None, "explicit membership test instead of a default")

# ------------------------------------------------------------------------------------------------ C03
v("C03", "time-based-choice", "break", P + "game/agent/scripted_agents/abstract_tap.py",
  "            self.starting_node = random.choice(self.config.agent_settings.starting_nodes)",
  "            self.starting_node = self.config.agent_settings.starting_nodes[int(time.time()) % len(self.config.agent_settings.starting_nodes)]",
  "R3.1", "start node picked from the wall clock")
v("C03", "secrets-choice", "break", P + "game/agent/scripted_agents/random_agent.py",
  "        random_increment = random.randint(-variance, variance)",
  "        random_increment = secrets.randbelow(2 * variance + 1) - variance", "R3.1", "schedule drawn from the OS entropy pool")
v("C03", "unseeded-generator", "break", P + "game/agent/scripted_agents/probabilistic_agent.py",
  "np.random.default_rng(np.random.randint(0, 65535))", "np.random.default_rng()", "R3.1", "Generator without a seed")
v("C03", "set-order-scan", "break", NMAP,
  '''        # scan in address order: the order of a set of addresses depends on the interpreter's hash seed
        ip_addresses = sorted(self._explode_ip_address_network_array(target_ip_address))

        for ip_address in ip_addresses:
            # Prevent ping scan on this node''',
  '''        ip_addresses = self._explode_ip_address_network_array(target_ip_address)

        for ip_address in ip_addresses:
            # Prevent ping scan on this node''', "R3.3", "the original defect")
v("C03", "set-order-agents", "break", GAME,
  "        for _, agent in self.agents.items():\n            obs = agent.observation_manager.current_observation",
  "        for agent in set(self.agents.values()):\n            obs = agent.observation_manager.current_observation", "R3.3", "agents act in hash order")
v("C03", "numpy-not-seeded", "break", ENV,
  "    # Seed numpy RNG\n    np.random.seed(seed)\n", "    # Seed numpy RNG\n", "R3.4", "numpy's generator keeps its start-up state")
v("C03", "seed-after-build", "break", ENV,
  '''        self.seed = set_random_seed(self.seed, self.generate_seed_value)
        self.io = PrimaiteIO.from_config(self.episode_scheduler(0).get("io_settings", {}))
        """Handles IO for the environment. This produces sys logs, agent logs, etc."""
        self.game: PrimaiteGame = PrimaiteGame.from_config(self.episode_scheduler(0))''',
  '''        self.io = PrimaiteIO.from_config(self.episode_scheduler(0).get("io_settings", {}))
        """Handles IO for the environment. This produces sys logs, agent logs, etc."""
        self.game: PrimaiteGame = PrimaiteGame.from_config(self.episode_scheduler(0))
        self.seed = set_random_seed(self.seed, self.generate_seed_value)''', "R3.4", "agents draw their start nodes before seeding")
v("C03", "draw-under-log-switch", "break", GAME,
  '''            if SIM_OUTPUT.save_agent_logs:
                agent.logger.debug(f"Chosen Action: {action_choice}")''',
  '''            if SIM_OUTPUT.save_agent_logs:
                agent.logger.debug(f"Chosen Action: {action_choice} sample {np.random.randint(0, 9)}")''', "R3.5", "an RNG draw happens only when logging is on")
v("C03", "benign-sorted-reverse", "benign", NMAP,
  "        ip_addresses = sorted(self._explode_ip_address_network_array(target_ip_address))\n\n        for ip_address in ip_addresses:\n            # Prevent ping scan",
  "        ip_addresses = sorted(self._explode_ip_address_network_array(target_ip_address), reverse=True)\n\n        for ip_address in ip_addresses:\n            # Prevent ping scan", None, "still a deterministic order")

v("C03", "applications-prepared-in-uuid-order", "break", BASE,
  '''        for application_id in self.applications:
            self.applications[application_id].pre_timestep(timestep=timestep)''',
  '''        for application_id in sorted(self.applications.keys()):
            self.applications[application_id].pre_timestep(timestep=timestep)''', "R3.6", "iteration ordered by uuid4 keys")
v("C03", "interfaces-ticked-by-uuid", "break", BASE,
  '''        for network_interface in self.network_interfaces.values():
            network_interface.apply_timestep(timestep=timestep)''',
  '''        for network_interface in sorted(self.network_interfaces.values(), key=lambda nic: nic.uuid):
            network_interface.apply_timestep(timestep=timestep)''', "R3.6", "sort key reads the identifier")
v("C03", "benign-interfaces-ticked-by-port-number", "benign", BASE,
  '''        for network_interface in self.network_interfaces.values():
            network_interface.apply_timestep(timestep=timestep)''',
  '''        for network_interface in sorted(self.network_interfaces.values(), key=lambda nic: nic.port_num):
            network_interface.apply_timestep(timestep=timestep)''', None, "sorted by data, not by identifier")

# ------------------------------------------------------------------------------------------------ C04
v("C04", "class-level-cache", "break", P + "simulator/system/services/arp/arp.py",
  '''    def show(self, markdown: bool = False):''',
  '''    def _remember(self, ip, mac):
        ARP._seen[ip] = mac

    def show(self, markdown: bool = False):''', "R4.1", "ARP results cached on the class")
v("C04", "switch-guards-behaviour", "break", BASE,
  '''        if self.operating_state == NodeOperatingState.ON:
            # node scanning''',
  '''        if self.operating_state == NodeOperatingState.ON and SIM_OUTPUT.save_sys_logs:
            # node scanning''', "R4.2", "node scans only run while sys-logging is on")
v("C04", "shared-class-list", "break", P + "simulator/system/core/session_manager.py",
  '''    def __init__(self, sys_log: SysLog):''',
  '''    history = []

    def _note(self, item):
        self.history.append(item)

    def __init__(self, sys_log: SysLog):''', "R4.3", "plain class keeps a list on the class and appends through instances")
v("C04", "scheduler-hands-out-own-dict", "break", SCHED,
  "        return copy.deepcopy(self.config)", "        return self.config", "R4.4", "every episode gets the dict the previous one mutated")
v("C04", "reset-powers-on", "break", CONTAINER,
  '''        for node in self.nodes.values():
            # nodes keep the power state the scenario declared (a reset must behave like a newly built environment)
            for network_interface in node.network_interfaces.values():''',
  '''        for node in self.nodes.values():
            node.power_on()
            for network_interface in node.network_interfaces.values():''', "R4.5", "the original defect")
v("C04", "dynamic-setattr", "break", P + "simulator/system/software.py",
  '''        self.health_state_actual = health_state
        return True''',
  '''        setattr(self, "health_state_actual", health_state)
        return True''', "R4.1", "attribute written through setattr: inventories unsound")
v("C04", "benign-deepcopy-import-form", "benign", SCHED,
  "        return copy.deepcopy(self.config)", "        fresh = copy.deepcopy(self.config)\n        return fresh", None, "copy held in a local")

# ------------------------------------------------------------------------------------------------ C20
v("C20", "bandwidth-ignored", "break", GAME,
  "            net.connect(endpoint_a=endpoint_a, endpoint_b=endpoint_b, bandwidth=bandwidth)",
  "            net.connect(endpoint_a=endpoint_a, endpoint_b=endpoint_b)", "R20.2", "declared link bandwidth dropped")
v("C20", "endpoint-port-crossed", "break", GAME,
  '''                endpoint_b = node_b.network_interface[link_cfg["endpoint_b_port"]]
            else:
                endpoint_b = node_b.network_interface[link_cfg["endpoint_b_port"]]''',
  '''                endpoint_b = node_b.network_interface[link_cfg["endpoint_a_port"]]
            else:
                endpoint_b = node_b.network_interface[link_cfg["endpoint_a_port"]]''', "R20.2", "endpoint b uses endpoint a's port number")
v("C20", "service-options-dropped", "break", GAME,
  '''                        new_node.software_manager.install(service_class, software_config=service_cfg.get("options", {}))''',
  '''                        new_node.software_manager.install(service_class)''', "R20.2", "service options never reach the service")
v("C20", "defaults-key-typo", "break", GAME,
  '''                new_node.config.start_up_duration = defaults_config["node_start_up_duration"]''',
  '''                new_node.config.start_up_duration = defaults_config["node_startup_duration"]''', "R20.1", "the original defect")
v("C20", "duration-hardcoded", "break", GAME,
  '''            new_node.config.shut_down_duration = int(node_cfg.get("shut_down_duration", 3))''',
  '''            new_node.config.shut_down_duration = 3''', "R20.2", "declared shut-down duration ignored")
v("C20", "all-nodes-powered-on", "break", GAME,
  '''            if new_node.operating_state == NodeOperatingState.ON:
                new_node.power_on()''',
  '''            new_node.power_on()''', "R20.2", "nodes declared OFF are switched on at load")
v("C20", "nic-order", "break", GAME,
  '''                for nic_num, nic_cfg in sorted(node_cfg["network_interfaces"].items()):''',
  '''                for nic_num, nic_cfg in node_cfg["network_interfaces"].items():''', "R20.3", "the original defect")
v("C20", "firewall-always-on", "break", FIREWALL,
  '''        if self.operating_state == NodeOperatingState.ON:
            self.power_on()''',
  '''        self.power_on()''', "R20.4", "the original defect")
v("C20", "route-metric-dropped", "break", FIREWALL,
  '''                    next_hop_ip_address=IPv4Address(route.get("next_hop_ip_address")),
                    metric=float(route.get("metric", 0)),
                )
        if "default_route" in config:''',
  '''                    next_hop_ip_address=IPv4Address(route.get("next_hop_ip_address")),
                )
        if "default_route" in config:''', "R20.2", "firewall routes lose their metric")
v("C20", "rules-added-to-the-wrong-list", "break", FIREWALL,
  '''                for r_num, r_cfg in config["acl"]["external_outbound_acl"].items():
                    firewall.external_outbound_acl.add_rule(''',
  '''                for r_num, r_cfg in config["acl"]["external_outbound_acl"].items():
                    firewall.external_inbound_acl.add_rule(''', "R20.5", "external outbound rules land in the inbound list")
v("C20", "wireless-router-rules-appended-in-file-order", "break", P + "simulator/network/hardware/nodes/network/wireless_router.py",
  '''                    dst_wildcard_mask=r_cfg.get("dst_wildcard_mask"),
                    position=r_num,''',
  '''                    dst_wildcard_mask=r_cfg.get("dst_wildcard_mask"),
                    position=len(router.acl.acl) - router.acl.acl.count(None),''', "R20.5", "position ignores the declared key")
v("C20", "router-acl-src-ip-from-dst", "break", ROUTER,
  '''                    src_ip_address=r_cfg.get("src_ip"),
                    src_wildcard_mask=r_cfg.get("src_wildcard_mask"),
                    dst_ip_address=r_cfg.get("dst_ip"),''',
  '''                    src_ip_address=r_cfg.get("dst_ip"),
                    src_wildcard_mask=r_cfg.get("src_wildcard_mask"),
                    dst_ip_address=r_cfg.get("dst_ip"),''', "R20.5", "source address taken from the destination key")
v("C20", "pc-links-default-bandwidth", "break", P + "simulator/network/creation.py",
  '''            network.connect(switch.network_interface[switch_port], pc.network_interface[1], bandwidth=config.bandwidth)''',
  '''            network.connect(switch.network_interface[switch_port], pc.network_interface[1])''', "R20.5", "PC links ignore the declared bandwidth")
v("C20", "constant-scheduler-hands-out-its-own-dict", "break", SCHED,
  '''        return copy.deepcopy(self.config)''',
  '''        return self.config''', "R20.6", "second episode is built from a consumed dict")
v("C20", "benign-acl-keywords-reordered", "benign", ROUTER,
  '''                    src_ip_address=r_cfg.get("src_ip"),
                    src_wildcard_mask=r_cfg.get("src_wildcard_mask"),
                    dst_ip_address=r_cfg.get("dst_ip"),
                    dst_wildcard_mask=r_cfg.get("dst_wildcard_mask"),
                    position=r_num,''',
  '''                    position=r_num,
                    dst_ip_address=r_cfg.get("dst_ip"),
                    dst_wildcard_mask=r_cfg.get("dst_wildcard_mask"),
                    src_ip_address=r_cfg.get("src_ip"),
                    src_wildcard_mask=r_cfg.get("src_wildcard_mask"),''', None, "same arguments in another order")
v("C20", "benign-bandwidth-local-rename", "benign", GAME,
  '''            bandwidth = link_cfg.get("bandwidth", DEFAULT_BANDWIDTH)  # default value if not configured''',
  '''            bandwidth = link_cfg.get("bandwidth") if "bandwidth" in link_cfg else DEFAULT_BANDWIDTH''', None, "same value computed differently")


# ------------------------------------------------------------------------------------------------ C10
REWARDS = P + "game/agent/rewards.py"
SCIENCE = P + "game/science.py"
v("C10", "weight-ignored", "break", REWARDS,
  "            total += weight * comp.calculate(state=state, last_action_response=last_action_response)",
  "            total += comp.calculate(state=state, last_action_response=last_action_response)", "R10.1", "weights dropped from the sum")
v("C10", "first-component-only", "break", REWARDS,
  "            total += weight * comp.calculate(state=state, last_action_response=last_action_response)\n        self.current_reward = total",
  "            total += weight * comp.calculate(state=state, last_action_response=last_action_response)\n            break\n        self.current_reward = total", "R10.1", "only the first component counts")
v("C10", "declaration-order", "break", GAME,
  "        for agent_name in self._reward_calculation_order:\n            agent = self.agents[agent_name]",
  "        for agent_name in self.agents:\n            agent = self.agents[agent_name]", "R10.2", "rewards evaluated in declaration order: shared rewards read last step's value")
v("C10", "total-counted-twice", "break", GAME,
  "            agent.reward_function.total_reward += agent.reward_function.current_reward",
  "            agent.reward_function.total_reward += agent.reward_function.current_reward\n            agent.reward_function.total_reward += agent.reward_function.current_reward", "R10.2", "step reward counted twice in the episode total")
v("C10", "edge-reversed", "break", GAME,
  "                    graph[name].add(comp.config.agent_name)",
  "                    graph[comp.config.agent_name].add(name)", "R10.3", "dependency edges reversed: dependants first")
v("C10", "cycle-check-after", "break", GAME,
  "        if graph_has_cycle(graph):", "        if False and graph_has_cycle(graph):", "R10.3", "cyclic sharing accepted")
v("C10", "toposort-preorder", "break", SCIENCE,
  "        visited.add(node)\n        for neighbour in graph.get(node, []):\n            dfs(neighbour)\n        stack.append(node)",
  "        visited.add(node)\n        stack.append(node)\n        for neighbour in graph.get(node, []):\n            dfs(neighbour)", "R10.3", "pre-order: an agent is evaluated before the agents it reads")
v("C10", "cycle-visited-first", "break", SCIENCE,
  "        if node in currently_visiting:\n            return True  # Cycle detected\n        if node in visited:\n            return False  # Already visited, no need to explore further",
  "        if node in visited:\n            return False  # Already visited, no need to explore further\n        if node in currently_visiting:\n            return True  # Cycle detected", "R10.3", "back edges are never seen")
v("C10", "sticky-reset", "break", REWARDS,
  "        elif not self.config.sticky:  # if no new request and not sticky, set reward to 0\n            last_action_response.reward_info = {\"connection_attempt_status\": \"n/a\"}\n            self.reward = 0.0",
  "        elif self.config.sticky:  # if no new request and not sticky, set reward to 0\n            last_action_response.reward_info = {\"connection_attempt_status\": \"n/a\"}\n            self.reward = 0.0", "R10.4", "sticky and non-sticky swapped")
v("C10", "db-penalty-reads-any-response", "break", REWARDS,
  '''        if request_attempted:  # if agent makes request, always recalculate fresh value
            last_action_response.reward_info = {"connection_attempt_status": last_action_response.response.status}
            self.reward = 1.0 if last_action_response.response.status == "success" else -1.0
        elif not self.config.sticky:''',
  '''        if request_attempted or last_action_response.response.status != "success":
            last_action_response.reward_info = {"connection_attempt_status": last_action_response.response.status}
            self.reward = 1.0 if last_action_response.response.status == "success" else -1.0
        elif not self.config.sticky:''', "R10.4", "any failed action counts as a failed database request")
v("C10", "benign-loop-unpack", "benign", REWARDS,
  "        for comp_and_weight in self.reward_components:\n            comp = comp_and_weight[0]\n            weight = comp_and_weight[1]\n            total +=",
  "        for comp, weight in self.reward_components:\n            total +=", None, "tuple unpacking in the loop header")

v("C12", "boot-countdown-ticks-after-the-reset-restart", "break", BASE,
  '''        # time steps which require the node to be on
        if self.operating_state == NodeOperatingState.ON:''',
  '''        # a node that is still booting keeps counting
        if self.operating_state == NodeOperatingState.BOOTING and self.config.start_up_countdown > 0:
            self.config.start_up_countdown -= 1

        # time steps which require the node to be on
        if self.operating_state == NodeOperatingState.ON:''', "R12.6", "second decrement after the reset's power_on")
v("C12", "node-is-on-guard-accepts-booting", "break", BASE,
  '''            return self.node.operating_state == NodeOperatingState.ON''',
  '''            return self.node.operating_state != NodeOperatingState.OFF''', "R12.3", "requests let through in transitional states")
v("C12", "benign-guard-via-membership", "benign", BASE,
  '''            return self.node.operating_state == NodeOperatingState.ON''',
  '''            return self.node.operating_state in (NodeOperatingState.ON,)''', None, "membership form of the same predicate")

v("C12", "revert-zero-duration-reset-never-restarts", "break", BASE,
  '''            # a reset is a shutdown followed by an automatic start: on the timed path apply_timestep issues it, here it is due now
            if self.config.is_resetting:
                self.config.is_resetting = False
                self.power_on()
            return True''',
  '''            return True''', "R12.7", "instant shutdown ignores the reset flag")
v("C12", "software-ticks-while-off", "break", BASE,
  '''            for service_id in self.services:
                self.services[service_id].apply_timestep(timestep=timestep)''',
  '''            pass
        for service_id in self.services:
            self.services[service_id].apply_timestep(timestep=timestep)
        if self.operating_state == NodeOperatingState.ON:''', "R12.7", "services tick whatever the power state")

# ------------------------------------------------------------------------------------------------ C13
SERVICE = P + "simulator/system/services/service.py"
APPLICATION = P + "simulator/system/applications/application.py"
v("C13", "start-from-any-state", "break", SERVICE,
  "        if self.operating_state == ServiceOperatingState.STOPPED:\n            self.sys_log.info(f\"Starting service {self.name}\")",
  "        if self.operating_state != ServiceOperatingState.RUNNING:\n            self.sys_log.info(f\"Starting service {self.name}\")", "R13.1", "a DISABLED or RESTARTING service can be started")
v("C13", "pause-from-stopped", "break", SERVICE,
  "        if self.operating_state == ServiceOperatingState.RUNNING:\n            self.sys_log.info(f\"Pausing service {self.name}\")\n            self.operating_state = ServiceOperatingState.PAUSED",
  "        if self.operating_state in [ServiceOperatingState.RUNNING, ServiceOperatingState.STOPPED]:\n            self.sys_log.info(f\"Pausing service {self.name}\")\n            self.operating_state = ServiceOperatingState.PAUSED", "R13.1", "STOPPED -> PAUSED")
v("C13", "restart-no-countdown", "break", SERVICE,
  "            self.operating_state = ServiceOperatingState.RESTARTING\n            self.restart_countdown = self.restart_duration",
  "            self.operating_state = ServiceOperatingState.RESTARTING", "R13.1", "restart completes with a stale countdown")
v("C13", "install-completes-at-once", "break", APPLICATION,
  "            self.install_countdown -= 1\n            if self.install_countdown <= 0:\n                self.operating_state = ApplicationOperatingState.RUNNING",
  "            self.install_countdown -= 1\n            if self.install_countdown is not None:\n                self.operating_state = ApplicationOperatingState.RUNNING", "R13.1", "install finishes on the first tick")
v("C13", "validator-wrong-state", "break", SERVICE,
  "_is_service_paused = Service._StateValidator(service=self, state=ServiceOperatingState.PAUSED)",
  "_is_service_paused = Service._StateValidator(service=self, state=ServiceOperatingState.STOPPED)", "R13.1", "resume request accepted exactly when resume() refuses")
v("C13", "running-predicate-dropped", "break", SERVICE,
  "        if self.operating_state is not ServiceOperatingState.RUNNING:\n            # service is not running\n            self.sys_log.debug(",
  "        if self.operating_state is ServiceOperatingState.DISABLED:\n            # service is not running\n            self.sys_log.debug(", "R13.2", "stopped/paused services may act")
v("C13", "dispatch-gate-dropped", "break", SWM,
  "        if main_receiver and self._is_running(main_receiver):", "        if main_receiver:", "R13.2", "the original defect (main receiver)")
v("C13", "listeners-ungated", "break", SWM,
  "            if port in software.listen_on_ports and software != main_receiver and self._is_running(software)",
  "            if port in software.listen_on_ports and software != main_receiver", "R13.2", "the original defect (listeners)")
v("C13", "open-ports-all-software", "break", SWM,
  "        for software in self.port_protocol_mapping.values():\n            if software.operating_state in {ApplicationOperatingState.RUNNING, ServiceOperatingState.RUNNING}:\n                open_ports.append(software.port)",
  "        for software in self.port_protocol_mapping.values():\n            if software.operating_state:\n                open_ports.append(software.port)", "R13.3", "stopped software keeps its port open")
v("C13", "uninstall-keeps-service-entry", "break", SWM,
  "            self.node.services.pop(software.uuid)\n            software.uninstall()",
  "            software.uninstall()", "R13.4", "uninstalled service stays in node.services and the reported state")
v("C13", "benign-stop-tuple", "benign", SERVICE,
  "        if self.operating_state in [ServiceOperatingState.RUNNING, ServiceOperatingState.PAUSED]:\n            self.sys_log.info(f\"Stopping service {self.name}\")",
  "        if self.operating_state in (ServiceOperatingState.PAUSED, ServiceOperatingState.RUNNING):\n            self.sys_log.info(f\"Stopping service {self.name}\")", None, "list -> tuple, order swapped")

# ------------------------------------------------------------------------------------------------ C14
SOFTWARE = P + "simulator/system/software.py"
FILE = P + "simulator/file_system/file.py"
v("C14", "compromise-updates-visible", "break", SOFTWARE,
  "        self.health_state_actual = health_state\n        return True",
  "        self.health_state_actual = health_state\n        self.health_state_visible = health_state\n        return True", "R14.1", "agents see a compromise without scanning")
v("C14", "scan-copies-good", "break", SOFTWARE,
  "        self.health_state_visible = self.health_state_actual\n        return True",
  "        self.health_state_visible = SoftwareHealthState.GOOD\n        return True", "R14.2", "a scan always reports GOOD")
v("C14", "timestep-heals", "break", SOFTWARE,
  "        super().apply_timestep(timestep)\n        if self.health_state_actual == SoftwareHealthState.FIXING:\n            self._update_fix_status()",
  "        super().apply_timestep(timestep)\n        if self.health_state_actual == SoftwareHealthState.COMPROMISED and timestep % 97 == 0:\n            self.health_state_actual = SoftwareHealthState.GOOD\n        if self.health_state_actual == SoftwareHealthState.FIXING:\n            self._update_fix_status()", "R14.3", "true health changes without an event")
v("C14", "fix-wrong-duration", "break", SOFTWARE,
  "            self._fixing_countdown = self.config.fixing_duration",
  "            self._fixing_countdown = self.fixing_count", "R14.4", "fix timer starts from the number of earlier fixes")
v("C14", "fix-from-overwhelmed", "break", SOFTWARE,
  "        if self.health_state_actual in (SoftwareHealthState.COMPROMISED, SoftwareHealthState.GOOD):",
  "        if self.health_state_actual != SoftwareHealthState.FIXING:", "R14.4", "fix accepted in undocumented states")
v("C14", "fix-finishes-early", "break", SOFTWARE,
  "        self._fixing_countdown -= 1\n        if self._fixing_countdown <= 0:\n            self.set_health_state(SoftwareHealthState.GOOD)",
  "        self._fixing_countdown -= 1\n        if self._fixing_countdown is not None:\n            self.set_health_state(SoftwareHealthState.GOOD)", "R14.4", "GOOD after one tick whatever the duration")
v("C14", "node-scan-duration-ignored", "break", BASE,
  "        self.node_scan_countdown = max(self.config.node_scan_duration, 1)\n        return True",
  "        self.node_scan_countdown = max(self.config.start_up_duration, 1)\n        return True", "R14.4", "whole-node scan timed by the start-up duration")
v("C14", "benign-scan-local", "benign", SOFTWARE,
  "        self.health_state_visible = self.health_state_actual\n        return True",
  "        actual = self.health_state_actual\n        self.health_state_visible = actual\n        return True", None, "copy through a local")

# ------------------------------------------------------------------------------------------------ C16
v("C16", "disabled-user-logs-in", "break", BASE,
  "        if user and not user.disabled and user.password == password:",
  "        if user and user.password == password:", "R16.1", "disabled accounts authenticate")
v("C16", "password-not-compared", "break", BASE,
  "        if user and not user.disabled and user.password == password:",
  "        if user and not user.disabled and password:", "R16.1", "any non-empty password is accepted")
v("C16", "password-inverted", "break", BASE,
  "        if user and not user.disabled and user.password == password:",
  "        if user and not user.disabled and user.password != password:", "R16.1", "only wrong passwords are accepted")
v("C16", "session-before-auth", "break", BASE,
  "        if not user:\n            self.sys_log.info(f\"{self.name}: Incorrect username or password\")\n            return None\n\n        session_id = None",
  "        if not user:\n            self.sys_log.info(f\"{self.name}: Incorrect username or password\")\n\n        session_id = None", "R16.2", "failed authentication still creates a session")
v("C16", "limit-off-by-one", "break", BASE,
  "        return len(self.remote_sessions) >= self.max_remote_sessions",
  "        return len(self.remote_sessions) > self.max_remote_sessions", "R16.3", "one session more than the maximum")
v("C16", "limit-not-consulted", "break", BASE,
  "            if not self.remote_session_limit_reached:\n                remote_session = RemoteUserSession.create(",
  "            if True:\n                remote_session = RemoteUserSession.create(", "R16.2", "remote logins ignore the session limit")
v("C16", "timeout-keeps-connection", "break", BASE,
  "            self.parent.terminal._connections.pop(session.uuid, None)\n", "", "R16.6", "timed-out session keeps its terminal connection")
v("C16", "first-session-only", "break", BASE,
  "                logged_out = self._logout(local=False, remote_session_id=sess_id) or logged_out\n",
  "                logged_out = self._logout(local=False, remote_session_id=sess_id) or logged_out\n                break\n", "R16.7", "the original defect")
v("C16", "password-change-keeps-sessions", "break", BASE,
  "            self._user_session_manager._logout_user(user=user)\n            return True",
  "            return True", "R16.7", "sessions survive a password change")
v("C16", "last-admin-disabled", "break", BASE,
  "        return username in self.admins and len(self.admins) == 1",
  "        return username in self.admins and len(self.admins) == 0", "R16.8", "the last admin can be disabled")
v("C16", "logout-short-circuited-after-first-success", "break", BASE,
  "            logged_out = self.local_logout() or logged_out",
  "            logged_out = logged_out or self.local_logout()", "R16.7", "local session survives once a remote one was ended")
v("C16", "last-admin-counts-flagged-accounts", "break", BASE,
  "        return username in self.admins and len(self.admins) == 1",
  "        flagged = [u for u in self.users.values() if u.is_admin]\n        return username in self.admins and len(flagged) == 1", "R16.8", "disabled administrators counted as remaining")
v("C16", "benign-auth-nested", "benign", BASE,
  "        if user and not user.disabled and user.password == password:\n            self.sys_log.info(f\"{self.name}: User authenticated: {username}\")\n            return user",
  "        if user is not None and user.disabled is False:\n            if password == user.password:\n                self.sys_log.info(f\"{self.name}: User authenticated: {username}\")\n                return user", None, "conjunction nested, operands swapped")

# ------------------------------------------------------------------------------------------------ C17
DBS = P + "simulator/system/services/database/database_service.py"
v("C17", "password-not-checked", "break", DBS,
  "                if self.config.db_password == password:\n                    status_code = 200  # ok",
  "                if self.config.db_password == password or password is None:\n                    status_code = 200  # ok", "R17.1", "connecting without a password succeeds")
v("C17", "connect-while-stopped", "break", DBS,
  "        if self.operating_state == ServiceOperatingState.RUNNING:\n            status_code = 503  # service unavailable",
  "        if self.operating_state != ServiceOperatingState.DISABLED:\n            status_code = 503  # service unavailable", "R17.1", "a stopped service hands out connections")
v("C17", "capacity-refusal-ignored", "break", DBS,
  "                    if not self.add_connection(connection_id=connection_id, session_id=session_id):\n                        status_code = 500",
  "                    if not self.add_connection(connection_id=connection_id, session_id=session_id):\n                        status_code = 200", "R17.1", "a refused connection is reported as opened")
v("C17", "sql-without-connection", "break", DBS,
  "                if payload.get(\"connection_id\") in self.connections:\n                    result = self._process_sql(",
  "                if payload.get(\"connection_id\"):\n                    result = self._process_sql(", "R17.2", "queries run for ids the service never issued")
v("C17", "receive-while-down", "break", DBS,
  "        # if server service is down, return error\n        if not self._can_perform_action():\n            return False\n",
  "", "R17.2", "a stopped service answers queries")
v("C17", "disconnect-from-anyone", "break", DBS,
  "                    if connected_ip_address == frame.ip.src_ip_address:",
  "                    if connected_ip_address:", "R17.2", "any host can close another client's connection")
v("C17", "restore-looks-only-among-live-files", "break", DBS,
  '''        db_file = self.file_system.get_file(folder_name="database", file_name="database.db", include_deleted=True)''',
  '''        db_file = self.file_system.get_file(folder_name="database", file_name="database.db")''', "R17.7", "a deleted database file is never found, the restore gives up")
v("C17", "benign-restore-lookup-flag-from-a-constant-local", "benign", DBS,
  '''        db_file = self.file_system.get_file(folder_name="database", file_name="database.db", include_deleted=True)''',
  '''        db_file = self.file_system.get_file(file_name="database.db", folder_name="database", include_deleted=True)''', None, "keyword order changed")
v("C17", "benign-password-swapped", "benign", DBS,
  "                if self.config.db_password == password:", "                if password == self.config.db_password:", None, "operands swapped")

# ------------------------------------------------------------------------------------------------ C19
RAND = P + "game/agent/scripted_agents/random_agent.py"
PROB = P + "game/agent/scripted_agents/probabilistic_agent.py"
DMB_AGENT = P + "game/agent/scripted_agents/data_manipulation_bot.py"
TAP = P + "game/agent/scripted_agents/abstract_tap.py"
v("C19", "acts-before-schedule", "break", RAND,
  "        if timestep == self.next_execution_timestep and self.num_executions < self.config.agent_settings.max_executions:",
  "        if timestep >= self.next_execution_timestep - 1 and self.num_executions < self.config.agent_settings.max_executions:", "R19.1", "acts one step early")
v("C19", "max-executions-ignored", "break", DMB_AGENT,
  "            timestep < self.next_execution_timestep\n            or self.num_executions >= self.config.agent_settings.max_executions",
  "            timestep < self.next_execution_timestep", "R19.1", "the original defect")
v("C19", "variance-doubled", "break", RAND,
  "        random_increment = random.randint(-variance, variance)",
  "        random_increment = random.randint(-variance, 2 * variance)", "R19.2", "gaps can exceed frequency + variance")
v("C19", "frequency-dropped", "break", RAND,
  "                timestep + self.config.agent_settings.frequency, self.config.agent_settings.variance",
  "                timestep + 1, self.config.agent_settings.variance", "R19.2", "fires every step")
v("C19", "wrong-start-node", "break", RAND,
  '                "node_name": self.start_node,\n                "application_name": self.config.agent_settings.target_application,',
  '                "node_name": self.config.agent_settings.possible_start_nodes[0],\n                "application_name": self.config.agent_settings.target_application,', "R19.3", "always the first configured node, not the selected start node")
v("C19", "values-order", "break", PROB,
  "        return np.asarray([action_probabilities[i] for i in range(len(action_probabilities))])",
  "        return np.asarray(list(action_probabilities.values()))", "R19.5", "the original defect")
v("C19", "uniform-sampling", "break", PROB,
  "self.rng.choice(len(self.action_manager.action_map), p=self.probabilities)",
  "self.rng.choice(len(self.action_manager.action_map))", "R19.5", "probabilities ignored")
v("C19", "handler-given-the-current-step", "break", P + "game/agent/scripted_agents/TAP001.py",
  "        if not self._tap_return_handler(self.current_timestep):",
  "        if not self._tap_return_handler(timestep - 1):", "R19.6", "looks at the in-between do-nothing item")
v("C19", "turn-marker-moved-before-the-handler", "break", P + "game/agent/scripted_agents/TAP003.py",
  '''        # self.current_timestep is currently the previous execution timestep
        # So it can be used to index action history.
        if not self._tap_return_handler(self.current_timestep):''',
  '''        self.update_current_timestep(new_timestep=timestep)
        if not self._tap_return_handler(self.current_timestep):''', "R19.6", "previous turn's marker overwritten first")
v("C19", "benign-handler-binds-the-item", "benign", TAP,
  '''        if self.history[timestep].response.status != "success":''',
  '''        if not (self.history[timestep].response.status == "success"):''', None, "negated equality")
v("C19", "benign-gate-swapped", "benign", RAND,
  "        if timestep == self.next_execution_timestep and self.num_executions < self.config.agent_settings.max_executions:",
  "        if self.config.agent_settings.max_executions > self.num_executions and self.next_execution_timestep == timestep:", None, "operands and conjuncts swapped")

# ------------------------------------------------------------------------------------------------ rules added after seeding round 3
FTPC = P + "simulator/system/services/ftp/ftp_client.py"
DBC = P + "simulator/system/applications/database_client.py"
LINKOBS = P + "game/agent/observations/link_observation.py"

v("C05", "dispatcher-folds-case", "break", CORE,
  """        request_key = request[0]
        request_options = request[1:]

        if request_key not in self.request_types:
            msg = (""",
  """        request_key = request[0]
        request_options = request[1:]
        if request_key not in self.request_types and isinstance(request_key, str):
            request_key = request_key.lower()

        if request_key not in self.request_types:
            msg = (""", "R5.1", "a misspelt name reaches another component")
v("C05", "benign-dispatcher-unpacks-the-path", "benign", CORE,
  """        request_key = request[0]
        request_options = request[1:]

        if request_key not in self.request_types:
            msg = (""",
  """        request_key, *request_options = request

        if request_key not in self.request_types:
            msg = (""", None, "star-unpacking instead of two subscripts")
v("C05", "os-subtree-loses-its-power-check", "break", BASE,
  """        rm.add_request("software_manager", RequestType(func=self._software_request_manager, validator=_node_is_on))""",
  """        rm.add_request("software_manager", RequestType(func=self._software_request_manager))""", "R5.9",
  "install / uninstall succeed on a node that is off")
v("C05", "benign-validator-keyword-first", "benign", BASE,
  """        rm.add_request("software_manager", RequestType(func=self._software_request_manager, validator=_node_is_on))""",
  """        rm.add_request("software_manager", RequestType(validator=_node_is_on, func=self._software_request_manager))""", None,
  "keyword order")
v("C05", "last-admin-rule-after-the-write", "break", BASE,
  """            if self._is_last_admin(username):
                self.sys_log.info(f"{self.name}: Cannot disable User {username} as they are the only enabled admin")
                return False
            self.users[username].disabled = True
""",
  """            self.users[username].disabled = True
            if not self.admins:
                self.sys_log.info(f"{self.name}: Cannot disable User {username} as they are the only enabled admin")
                return False
""", "R5.10", "the refused disable leaves the account disabled")
v("C05", "benign-last-admin-rule-in-a-local", "benign", BASE,
  """            if self._is_last_admin(username):
                self.sys_log.info(f"{self.name}: Cannot disable User {username} as they are the only enabled admin")
                return False
            self.users[username].disabled = True
""",
  """            only_admin = self._is_last_admin(username)
            if only_admin:
                self.sys_log.info(f"{self.name}: Cannot disable User {username} as they are the only enabled admin")
                return False
            self.users[username].disabled = True
""", None, "the decision is held in a local, still before the write")
v("C13", "timed-boot-starts-software-before-on", "break", BASE,
  """            if self.operating_state == NodeOperatingState.BOOTING:
                self.operating_state = NodeOperatingState.ON
                self.sys_log.info(f"{self.config.hostname}: Turned on")
                for network_interface in self.network_interfaces.values():
                    network_interface.enable()

                self._start_up_actions()
""",
  """            if self.operating_state == NodeOperatingState.BOOTING:
                self._start_up_actions()
                self.operating_state = NodeOperatingState.ON
                self.sys_log.info(f"{self.config.hostname}: Turned on")
                for network_interface in self.network_interfaces.values():
                    network_interface.enable()
""", "R13.5", "services refuse to start on a node that is still BOOTING")
v("C13", "benign-start-up-before-the-nics", "benign", BASE,
  """            if self.operating_state == NodeOperatingState.BOOTING:
                self.operating_state = NodeOperatingState.ON
                self.sys_log.info(f"{self.config.hostname}: Turned on")
                for network_interface in self.network_interfaces.values():
                    network_interface.enable()

                self._start_up_actions()
""",
  """            if self.operating_state == NodeOperatingState.BOOTING:
                self.operating_state = NodeOperatingState.ON
                self.sys_log.info(f"{self.config.hostname}: Turned on")
                self._start_up_actions()
                for network_interface in self.network_interfaces.values():
                    network_interface.enable()
""", None, "start-up still after the ON store")
v("C14", "room-for-connections-cures-everything", "break", SOFTWARE,
  """            if self.health_state_actual == SoftwareHealthState.OVERWHELMED:
                self.set_health_state(SoftwareHealthState.GOOD)
""",
  """            if self.health_state_actual != SoftwareHealthState.GOOD:
                self.set_health_state(SoftwareHealthState.GOOD)
""", "R14.3", "a new connection ends a compromise or a running fix")
v("C14", "benign-overwhelmed-test-by-membership", "benign", SOFTWARE,
  """            if self.health_state_actual == SoftwareHealthState.OVERWHELMED:
                self.set_health_state(SoftwareHealthState.GOOD)
""",
  """            if self.health_state_actual in (SoftwareHealthState.OVERWHELMED,):
                self.set_health_state(SoftwareHealthState.GOOD)
""", None, "membership in a one-element tuple")
v("C17", "ftp-success-unless-error", "break", FTPC,
  """            if payload.status_code == FTPStatusCode.OK:
                self.sys_log.info(f"{self.name}: File {src_folder_name}/{src_file_name} found in FTP server.")
                return True
            else:
                self.sys_log.error(f"{self.name}: File {src_folder_name}/{src_file_name} does not exist in FTP server")
                return False
""",
  """            if payload.status_code == FTPStatusCode.ERROR:
                self.sys_log.error(f"{self.name}: File {src_folder_name}/{src_file_name} does not exist in FTP server")
                return False
            self.sys_log.info(f"{self.name}: File {src_folder_name}/{src_file_name} found in FTP server.")
            return True
""", "R17.8", "an unanswered RETR counts as success: restore reports True with nothing restored")
v("C17", "benign-ftp-failure-first", "benign", FTPC,
  """            if payload.status_code == FTPStatusCode.OK:
                self.sys_log.info(f"{self.name}: File {src_folder_name}/{src_file_name} found in FTP server.")
                return True
            else:
                self.sys_log.error(f"{self.name}: File {src_folder_name}/{src_file_name} does not exist in FTP server")
                return False
""",
  """            if payload.status_code != FTPStatusCode.OK:
                self.sys_log.error(f"{self.name}: File {src_folder_name}/{src_file_name} does not exist in FTP server")
                return False
            self.sys_log.info(f"{self.name}: File {src_folder_name}/{src_file_name} found in FTP server.")
            return True
""", None, "failure handled first, success still only for OK")
v("C17", "disconnect-decided-from-the-client-wide-flag", "break", DBC,
  """        if len(self.client_connections) == 0:
            self.sys_log.warning(f"{self.name}: Unable to disconnect, no active connections.")""",
  """        if not self.connected:
            self.sys_log.warning(f"{self.name}: Unable to disconnect, no active connections.")""", "R17.8",
  "the second of two connections can no longer be closed")
v("C17", "benign-flag-only-logged", "benign", DBC,
  """        if len(self.client_connections) == 0:
            self.sys_log.warning(f"{self.name}: Unable to disconnect, no active connections.")""",
  """        if len(self.client_connections) == 0:
            self.sys_log.warning(f"{self.name}: Unable to disconnect, no active connections (connected={self.connected}).")""", None,
  "the flag is printed, not decided from")
v("C09", "link-band-by-ceiling", "break", LINKOBS,
  """        if load == 0:
            utilisation_category = 0
        else:
            utilisation_fraction = load / bandwidth
            utilisation_category = int(utilisation_fraction * 9) + 1
""",
  """        utilisation_fraction = load / bandwidth
        utilisation_category = math.ceil(utilisation_fraction * 9)
""", "R9.13", "a full link reads 9, band 10 can never occur")
v("C09", "benign-link-band-inlined", "benign", LINKOBS,
  """            utilisation_fraction = load / bandwidth
            utilisation_category = int(utilisation_fraction * 9) + 1
""",
  """            utilisation_category = 1 + int(9 * load / bandwidth)
""", None, "same arithmetic without the intermediate local")

v("C07", "empty-list-fast-path-always-permits", "break", ROUTER,
  """        permitted = False
        rule: ACLRule = None

        for _rule in self._acl:""",
  """        if not self.num_rules:
            self.implicit_rule.match_count += 1
            return True, self.implicit_rule
        permitted = False
        rule: ACLRule = None

        for _rule in self._acl:""", "R7.1", "an empty default-deny list lets everything through")
v("C07", "benign-empty-list-fast-path", "benign", ROUTER,
  """        permitted = False
        rule: ACLRule = None

        for _rule in self._acl:""",
  """        if not self.num_rules:
            self.implicit_rule.match_count += 1
            return self.implicit_action == ACLAction.PERMIT, self.implicit_rule
        permitted = False
        rule: ACLRule = None

        for _rule in self._acl:""", None, "the fast path gives the implicit action's verdict and counts the implicit rule")

# ------------------------------------------------------------------------------------------------ C02 / C09
# the variants written together with the observation engine live next to the rules (sa/rules/c02.py, c09.py: VARIANTS)
import sys

sys.path.insert(0, os.path.dirname(HERE))
for _prop in ("C02", "C09"):
    _mod = __import__(f"sa.rules.{_prop.lower()}", fromlist=["VARIANTS"])
    for _i, (_what, _kind, _file, _edits) in enumerate(getattr(_mod, "VARIANTS", [])):
        if _kind == "repair":
            continue  # repairs of open findings are exercised on the repaired tree itself
        C.setdefault(_prop, []).append({"id": f"v{_i:02d}", "kind": "break" if _kind == "breaking" else "benign", "file": _file,
                                        "rule": None, "what": _what, "edits": [{"old": o, "new": n} for o, n in _edits]})

# ------------------------------------------------------------------------------------------------ seeded changes
# the independently seeded changes archived under /verif/seeded, converted to text edits by tools/seeds_to_corpus.py
_sp = os.path.join(HERE, "seeded_corpus.json")
if os.path.exists(_sp):
    for _prop, _items in json.load(open(_sp)).items():
        C.setdefault(_prop, []).extend(_items)

if __name__ == "__main__":
    os.makedirs(os.path.join(HERE, "corpus"), exist_ok=True)
    for prop, items in C.items():
        with open(os.path.join(HERE, "corpus", f"{prop.lower()}.json"), "w") as fh:
            json.dump(items, fh, indent=1)
        print(prop, len(items), "variants")
