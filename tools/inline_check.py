"""Inline-temp insensitivity self-test: a local bound by `x = <expr>` and loaded exactly once, in the very next statement of
the same block, is inlined there (the assignment disappears) - in memory - and all 20 checks must give the same verdicts.
python tools/inline_check.py"""
import ast, os, sys, importlib, copy
from collections import Counter
sys.path.insert(0, '/verif')
from sa.index import Index, AnalysisError
from sa.report import Ctx, load_known
repo = '/repo'
N = [0]


class Sub(ast.NodeTransformer):
    def __init__(self, name, value):
        self.name, self.value, self.done = name, value, 0

    def visit_Name(self, node):
        if node.id == self.name and isinstance(node.ctx, ast.Load):
            self.done += 1
            return copy.deepcopy(self.value)
        return node

    def visit_Lambda(self, node):
        return node

    def visit_FunctionDef(self, node):
        return node


def process_fn(fn):
    loads = Counter(n.id for n in ast.walk(fn) if isinstance(n, ast.Name) and isinstance(n.ctx, ast.Load))
    stores = Counter(n.id for n in ast.walk(fn) if isinstance(n, ast.Name) and isinstance(n.ctx, ast.Store))

    def block(body):
        i = 0
        while i + 1 < len(body):
            a, b = body[i], body[i + 1]
            if isinstance(a, ast.Assign) and len(a.targets) == 1 and isinstance(a.targets[0], ast.Name):
                nm = a.targets[0].id
                head = b.test if isinstance(b, (ast.If, ast.While)) else (b.iter if isinstance(b, ast.For) else b)
                if loads[nm] == 1 and stores[nm] == 1 and not isinstance(b, (ast.FunctionDef, ast.ClassDef, ast.Try, ast.With)) \
                        and sum(1 for x in ast.walk(head) if isinstance(x, ast.Name) and x.id == nm and isinstance(x.ctx, ast.Load)) == 1 \
                        and not isinstance(a.value, (ast.Yield, ast.Await, ast.Lambda)) \
                        and not any(isinstance(x, (ast.ListComp, ast.GeneratorExp, ast.DictComp, ast.SetComp, ast.Lambda)) and any(
                            isinstance(y, ast.Name) and y.id == nm for y in ast.walk(x)) for x in ast.walk(head)):
                    s = Sub(nm, a.value)
                    if isinstance(b, (ast.If, ast.While)):
                        b.test = s.visit(b.test)
                    elif isinstance(b, ast.For):
                        b.iter = s.visit(b.iter)
                    else:
                        body[i + 1] = s.visit(b)
                    if s.done == 1:
                        del body[i]
                        N[0] += 1
                        continue
            i += 1
        for st in body:
            for fld in ("body", "orelse", "finalbody"):
                v = getattr(st, fld, None)
                if isinstance(v, list) and v and isinstance(v[0], ast.stmt) and not isinstance(st, (ast.FunctionDef, ast.ClassDef)):
                    block(v)
            if isinstance(st, ast.Try):
                for h in st.handlers:
                    block(h.body)
    block(fn.body)


overlay = {}
for d, _, fs in os.walk(os.path.join(repo, 'src/primaite')):
    for f in fs:
        if f.endswith('.py'):
            p = os.path.join(d, f); rel = os.path.relpath(p, repo)
            t = ast.parse(open(p).read())
            for n in ast.walk(t):
                if isinstance(n, (ast.FunctionDef, ast.AsyncFunctionDef)) and not any(isinstance(x, (ast.FunctionDef, ast.Lambda)) and x is not n for x in ast.walk(n)):
                    process_fn(n)
            ast.fix_missing_locations(t)
            src = ast.unparse(t); compile(src, rel, "exec"); overlay[rel] = src
print(f"{N[0]} single-use locals inlined")
known = {(f['property'], f['rule'], f['key']) for f in load_known()['findings'] if f.get('status') == 'known'}
rc = 0
only = sys.argv[1:]
for i in range(1, 21):
    prop = f"C{i:02d}"
    if only and prop not in only:
        continue
    try:
        mod = importlib.import_module(f"sa.rules.{prop.lower()}")
        ctx0 = Ctx(prop, 'rt', Index(repo)); mod.check(ctx0)
        ctx = Ctx(prop, 'rt', Index(repo, overlay=overlay)); mod.check(ctx)
        c0 = Counter((x.rule, x.ok) for x in ctx0.instances); c1 = Counter((x.rule, x.ok) for x in ctx.instances)
        diff = {f"{r}/{'ok' if ok else 'fail'}": (c0[(r, ok)], c1[(r, ok)]) for (r, ok) in set(c0) | set(c1) if c0[(r, ok)] != c1[(r, ok)]}
        f0 = {(y.rule, y.key) for y in ctx0.instances if not y.ok}
        newf = [x for x in ctx.instances if not x.ok and (prop, x.rule, x.key) not in known and (x.rule, x.key) not in f0]
        print(prop, len(ctx.instances), "new failing:", len(newf), [(x.rule, x.key.split('::', 1)[1][:80]) for x in newf][:4], "| count diffs:", diff)
        rc |= bool(newf)
    except AnalysisError as e:
        print(prop, "ANALYSIS-ERROR", str(e)[:300]); rc = 1
sys.exit(rc)
