#!/venv/bin/python
"""Maintain known_findings.json by hand: tools/kf.py add <prop> <rule> <key> <what> | fixed <prop> <commit> <what>."""
import json, sys
p = "/verif/known_findings.json"
d = json.load(open(p))
if sys.argv[1] == "add":
    _, _, prop, rule, key, what = sys.argv[:6]
    demo = sys.argv[6] if len(sys.argv) > 6 else ""
    d["findings"] = [f for f in d["findings"] if not (f.get("property") == prop and f.get("rule") == rule and f.get("key") == key)]
    d["findings"].append({"status": "known", "property": prop, "rule": rule, "key": key, "what": what, "demo": demo})
elif sys.argv[1] == "fixed":
    _, _, prop, commit, what = sys.argv[:5]
    d["findings"].append({"status": "fixed", "property": prop, "commit": commit, "what": what,
                          "line": f"fixed: property={prop} {commit} {what}"})
json.dump(d, open(p, "w"), indent=1)
