#!/venv/bin/python
"""Copy confirmed seeded changes into /verif/seeded/<ID>-<N>/.

usage: tools/archive_seed.py <seed_out_dir> <confirm_dir> <scratch_worktree> [suffix]
A seed is kept only when the confirmation record says: patch applies, demo exits 0 on /repo, non-zero on the patched
tree, and the 526-test baseline stays green on the patched tree.  patch.diff is re-generated against /repo's current
HEAD (3-way apply in the scratch worktree, then `git diff HEAD`) so that it applies cleanly with plain `git apply`.
"""
import json, os, shutil, subprocess, sys
src, conf, wt = sys.argv[1:4]
suffix = sys.argv[4] if len(sys.argv) > 4 else ""
ROOT = os.path.dirname(os.path.dirname(os.path.abspath(__file__)))
head = subprocess.check_output(["git", "-C", "/repo", "rev-parse", "--short", "HEAD"], text=True).strip()
def sh(c): return subprocess.run(c, shell=True, capture_output=True, text=True)
kept = skipped = 0
for f in sorted(os.listdir(conf)):
    if not f.endswith(".json"): continue
    r = json.load(open(os.path.join(conf, f)))
    sid = r["seed"]; pid, n = sid.split("/")
    ok = r.get("applies") and r.get("demo_repo") == 0 and r.get("demo_patched") not in (0, None, "timeout") and r.get("baseline_ok")
    if not ok:
        print("NOT KEPT", sid, {k: r.get(k) for k in ("applies", "demo_repo", "demo_patched", "baseline_ok")}); skipped += 1; continue
    d = os.path.join(ROOT, "seeded", f"{pid}-{n}{suffix}")
    os.makedirs(d, exist_ok=True)
    sh(f"git -C {wt} checkout -q --detach $(git -C /repo rev-parse HEAD); git -C {wt} reset -q --hard; git -C {wt} clean -fdq")
    a = sh(f"git -C {wt} apply --3way {src}/{sid}/patch.diff")
    if a.returncode != 0:
        print("PATCH FAILED", sid, a.stderr[-200:]); skipped += 1; continue
    diff = sh(f"git -C {wt} diff HEAD").stdout
    open(os.path.join(d, "patch.diff"), "w").write(diff)
    sh(f"git -C {wt} reset -q --hard")
    shutil.copy(os.path.join(src, sid, "demo.py"), os.path.join(d, "demo.py"))
    meta = json.load(open(os.path.join(src, sid, "meta.json")))
    meta["origin"] = "independent sub-agent given only the property text and a scratch worktree"
    meta["confirmed"] = {
        "against": head,
        "patch": f"git apply (3-way) onto {head}: ok; patch.diff here is `git diff HEAD` of that tree",
        "demo_on_repo": f"PYTHONPATH=/repo/src /venv/bin/python demo.py -> exit {r['demo_repo']}",
        "demo_on_patched_tree": f"PYTHONPATH=<patched worktree>/src /venv/bin/python demo.py -> exit {r['demo_patched']}",
        "demo_patched_tail": (r.get("demo_patched_tail") or "")[-300:],
        "baseline_on_patched_tree": r.get("baseline", "").splitlines()[0] if r.get("baseline") else "",
    }
    json.dump(meta, open(os.path.join(d, "meta.json"), "w"), indent=1)
    kept += 1
print(f"kept {kept}, not kept {skipped}")
