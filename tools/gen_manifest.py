#!/venv/bin/python
"""Regenerate /verif/MANIFEST.json from the rule modules present under sa/rules (keeps it valid at all times)."""
import importlib
import json
import os
import sys

ROOT = os.path.dirname(os.path.dirname(os.path.abspath(__file__)))
sys.path.insert(0, ROOT)

BASELINE_OFF = (
    "cd /repo && env -u PRIMAITE_VERIF /venv/bin/python -m pytest -ra -q -p no:cacheprovider --timeout=900 "
    "--continue-on-collection-errors --junitxml=/tmp/primaite_baseline.junit.xml"
)

# properties (or whole properties) that static analysis cannot reach: id -> reason
NOT_APPLICABLE = {}

PENDING_REASON = "check not yet implemented in this commit (static rules designed in DESIGN.md section 3; being built)"


def main() -> None:
    props = [json.loads(l)["id"] for l in open(os.path.join(ROOT, "properties.jsonl"))]
    checks = []
    na = []
    ready = set(open(os.path.join(ROOT, "tools", "ready.txt")).read().split())
    for pid in props:
        try:
            if pid not in ready:
                raise ModuleNotFoundError  # work in progress: not claimed until listed in tools/ready.txt
            mod = importlib.import_module(f"sa.rules.{pid.lower()}")
        except ModuleNotFoundError:
            na.append({"property_id": pid, "reason": NOT_APPLICABLE.get(pid, PENDING_REASON)})
            continue
        if pid in NOT_APPLICABLE:
            na.append({"property_id": pid, "reason": NOT_APPLICABLE[pid]})
            continue
        checks.append({
            "property_id": pid,
            "quick_cmd": f"./check {pid} --tier quick",
            "thorough_cmd": f"./check {pid} --tier thorough",
            "evidence_file": f"/verif/evidence/{pid}.json",
            "replay_cmd_template": f"./check {pid} --replay {{path}}",
            "engine": "sa",
            "level_claimed": {
                "category": "other",
                "text": mod.EXPLANATION,
                "design_ref": f"DESIGN.md section 3, {pid}",
            },
            "level_note": "Trusted base: CPython 3.12 ast; the sa/ engines (index with C3 MRO and annotation typing, "
                          "statement CFG with guard edges, store/call inventories, request-tree reconstruction); frozen "
                          "who-may-write / who-may-call tables in the rule module. Assumes: "
                          + "; ".join(getattr(mod, "ASSUMPTIONS", [])),
            "technique": getattr(mod, "TECHNIQUE", "static analysis: custom ast/CFG/call-graph rules over /repo's source"),
        })
    man = {
        "version": 1,
        "setup_cmd": "cd /verif && /venv/bin/python -m sa.smoke",
        "hooks": {
            "guard": "PRIMAITE_VERIF",
            "enable": "none needed: the analysis reads source text only; no instrumentation exists in /repo",
            "baseline_off_cmd": BASELINE_OFF,
            "source_commits": [],
            "add_only": True,
        },
        "engines": [
            {"name": "sa", "path": "/verif/sa", "serves_properties": [c["property_id"] for c in checks],
             "kind_free_text": "repository-specific static analyser on stdlib ast: program index (C3 MRO, annotation "
                               "typing, class-hierarchy call resolution; a syntactic normal form that splices extracted helpers, new constants and "
                               "hoisted attribute chains back and unifies equivalent spellings), per-function CFG with guard edges and "
                               "must-pass/dominator/count queries, who-may-write/who-may-call inventories, request-tree "
                               "reconstruction, finite-domain guard evaluation, in-memory mutant overlays for self-test"}
        ],
        "checks": checks,
        "not_applicable": na,
        "notes": "Every check is `./check <ID>`; exit 0 = rules hold (KNOWN-FINDING lines for listed findings), exit 1 "
                 "+ VIOLATION line = a rule instance fails that is not listed in known_findings.json, exit 2 + "
                 "ANALYSIS-ERROR = anchor vanished / idiom not recognised (fail-closed, not a violation). The thorough "
                 "tier adds the self-test corpus (breaking variants must be detected, benign twins must stay silent) and "
                 "verdict invariance under fifteen whole-repository behaviour-preserving rewrites (sa/invariance.py), all "
                 "analysed as in-memory overlays - PrimAITE code is never executed by any check.",
    }
    with open(os.path.join(ROOT, "MANIFEST.json"), "w") as fh:
        json.dump(man, fh, indent=1)
    print(f"MANIFEST.json: {len(checks)} checks, {len(na)} not_applicable")


if __name__ == "__main__":
    main()
