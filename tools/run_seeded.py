#!/venv/bin/python
"""Apply every seeded change under /verif/seeded/<id>/ to /repo, run the property's quick check, undo the change.

usage: tools/run_seeded.py [--worktree DIR] [ID ...]   (default: all).  Writes seeded/results.json and prints one line per change.
/repo must be clean (no uncommitted edits) when this starts; it is left clean.  With --worktree DIR (a scratch git worktree of
/repo outside /repo and /verif) the patches are applied there instead and the checks are run with --repo DIR: same analysis,
/repo itself is not touched (used while other work reads /repo).
"""
import json
import os
import subprocess
import sys

ROOT = os.path.dirname(os.path.dirname(os.path.abspath(__file__)))
SEEDED = os.path.join(ROOT, "seeded")
REPO = "/repo"


def sh(*cmd, **kw):
    return subprocess.run(cmd, capture_output=True, text=True, **kw)


def main() -> int:
    global REPO
    argv = sys.argv[1:]
    extra = []
    if argv and argv[0] == "--worktree":
        REPO = argv[1]
        argv = argv[2:]
        extra = ["--repo", REPO]
        sh("git", "-C", REPO, "checkout", "-q", "--detach", sh("git", "-C", "/repo", "rev-parse", "HEAD").stdout.strip())
        sh("git", "-C", REPO, "reset", "-q", "--hard")
    sys.argv = [sys.argv[0]] + argv
    if sh("git", "-C", REPO, "status", "--porcelain", "--untracked-files=no").stdout.strip():
        print("refusing to run: /repo has uncommitted changes")
        return 2
    ids = argv or sorted(d for d in os.listdir(SEEDED) if os.path.isdir(os.path.join(SEEDED, d)))
    results = {}
    for sid in ids:
        d = os.path.join(SEEDED, sid)
        meta = json.load(open(os.path.join(d, "meta.json")))
        prop = meta["property"]
        patch = os.path.join(d, "patch.diff")
        ap = sh("git", "-C", REPO, "apply", "--3way", patch)
        if ap.returncode != 0:
            ap = sh("git", "-C", REPO, "apply", patch)
        if ap.returncode != 0:
            results[sid] = {"property": prop, "outcome": "patch does not apply", "detail": ap.stderr[-300:]}
            sh("git", "-C", REPO, "checkout", "--", ".")
            print(f"{sid:24s} {prop}  PATCH-DOES-NOT-APPLY")
            continue
        try:
            props = [prop] + [p for p in meta.get("also_check", [])]
            fired = {}
            for p in props:
                r = sh(os.path.join(ROOT, "check"), p, "--tier", "quick", *extra)
                lines = [l.strip() for l in r.stdout.splitlines()]
                viol = [l for l in lines if l.startswith("src/") or l.startswith("docs/")]
                fired[p] = {"exit": r.returncode, "violations": sum(1 for l in lines if l.startswith("VIOLATION")),
                            "analysis_error": next((l for l in lines if l.startswith("ANALYSIS-ERROR")), None),
                            "first": viol[0][:300] if viol else ""}
        finally:
            sh("git", "-C", REPO, "reset", "-q", "--hard", "HEAD")
        main_r = fired[prop]
        outcome = "caught" if main_r["exit"] == 1 else ("fail-closed" if main_r["exit"] == 2 else "missed")
        others = [p for p in props[1:] if fired[p]["exit"] == 1]
        if outcome == "missed" and others:
            outcome = f"caught by {','.join(others)}"
        results[sid] = {"property": prop, "outcome": outcome, "checks": fired, "summary": meta.get("summary", "")}
        print(f"{sid:24s} {prop}  {outcome:12s} {main_r['first'][:150]}")
    out = os.path.join(SEEDED, "results.json")
    old = json.load(open(out)) if os.path.exists(out) else {}
    old.update(results)
    json.dump(old, open(out, "w"), indent=1)
    # restore evidence of the unchanged tree for the touched properties
    for p in sorted({r["property"] for r in results.values()}):
        sh(os.path.join(ROOT, "check"), p, "--tier", "quick")
    return 0


if __name__ == "__main__":
    sys.exit(main())
