"""Branch-shape insensitivity self-test: every `if c: A else: B` (B non-empty, not an elif chain) becomes `if not c: B else: A`
- in memory - and all 20 checks must give the same verdicts and per-rule instance counts.  python tools/ifswap_check.py"""
import ast, os, sys, importlib
from collections import Counter
sys.path.insert(0, '/verif')
from sa.index import Index, AnalysisError
from sa.report import Ctx, load_known
repo = '/repo'
N = [0]


class Swap(ast.NodeTransformer):
    def visit_If(self, node):
        self.generic_visit(node)
        if node.orelse and not (len(node.orelse) == 1 and isinstance(node.orelse[0], ast.If)):
            N[0] += 1
            return ast.copy_location(ast.If(test=ast.UnaryOp(op=ast.Not(), operand=node.test), body=node.orelse, orelse=node.body), node)
        return node


overlay = {}
for d, _, fs in os.walk(os.path.join(repo, 'src/primaite')):
    for f in fs:
        if f.endswith('.py'):
            p = os.path.join(d, f); rel = os.path.relpath(p, repo)
            t = Swap().visit(ast.parse(open(p).read())); ast.fix_missing_locations(t)
            overlay[rel] = ast.unparse(t)
print(f"{N[0]} if/else statements swapped")
known = {(f['property'], f['rule'], f['key']) for f in load_known()['findings'] if f.get('status') == 'known'}
rc = 0
only = sys.argv[1:]
for i in range(1, 21):
    prop = f"C{i:02d}"
    if only and prop not in only:
        continue
    try:
        mod = importlib.import_module(f"sa.rules.{prop.lower()}")
        ctx0 = Ctx(prop, 'rt', Index(repo)); mod.check(ctx0)
        ctx = Ctx(prop, 'rt', Index(repo, overlay=overlay)); mod.check(ctx)
        c0 = Counter((x.rule, x.ok) for x in ctx0.instances); c1 = Counter((x.rule, x.ok) for x in ctx.instances)
        diff = {f"{r}/{'ok' if ok else 'fail'}": (c0[(r, ok)], c1[(r, ok)]) for (r, ok) in set(c0) | set(c1) if c0[(r, ok)] != c1[(r, ok)]}
        f0 = {(x.rule, x.key) for x in ctx0.instances if not x.ok}
        new = [x for x in ctx.instances if not x.ok and (x.rule, x.key) not in f0 and (prop, x.rule, x.key) not in known]
        print(prop, len(ctx.instances), "new failing:", len(new), [(x.rule, x.key.split('::', 1)[1][:80]) for x in new][:4], "| count diffs:", diff)
        rc |= bool(new)
    except AnalysisError as e:
        print(prop, "ANALYSIS-ERROR", str(e)[:300]); rc = 1
sys.exit(rc)
