#!/venv/bin/python
"""Run one whole-repository rewrite of sa/invariance.py (also the experimental ones not yet in TRANSFORMS) against all checks.
usage: tools/invariance_all.py <transformation> [PROP ...]"""
import os, sys
sys.path.insert(0, os.path.dirname(os.path.dirname(os.path.abspath(__file__))))
from concurrent.futures import ProcessPoolExecutor
from sa import invariance as inv

name = sys.argv[1]
fn = getattr(inv, "t_" + name)
if not any(n == name for n, _, _ in inv.TRANSFORMS):
    inv.TRANSFORMS.append((name, (fn.__doc__ or name).strip().splitlines()[0], fn))
props = [a.upper() for a in sys.argv[2:]] or [f"C{i:02d}" for i in range(1, 21)]


def one(p):
    return p, inv._one((p, os.environ.get("PRIMAITE_REPO", "/repo"), name))


if __name__ == "__main__":
    bad = 0
    with ProcessPoolExecutor(max_workers=8) as ex:
        for p, r in ex.map(one, props):
            print(p, r["outcome"], r.get("rewrites"), r.get("instances"), r.get("instances_real"), r.get("first") or r.get("detail") or "")
            bad += r["outcome"] != "same"
    sys.exit(1 if bad else 0)
