#!/venv/bin/python
"""Run the repository's baseline suite (guard off) and compare with /root/.vp/BASELINE.json stable_pass."""
import json, os, subprocess, sys, xml.etree.ElementTree as ET
out = sys.argv[1] if len(sys.argv) > 1 else "/tmp/primaite_baseline.junit.xml"
extra = sys.argv[2:]
env = dict(os.environ); env.pop("PRIMAITE_VERIF", None)
cmd = ["/venv/bin/python", "-m", "pytest", "-ra", "-q", "-p", "no:cacheprovider", "--timeout=900",
       "--continue-on-collection-errors", f"--junitxml={out}"] + extra
subprocess.run(cmd, cwd="/repo", env=env, stdout=subprocess.DEVNULL, stderr=subprocess.DEVNULL)
base = json.load(open("/root/.vp/BASELINE.json"))
want = set(base["stable_pass"])
got = set()
for tc in ET.parse(out).getroot().iter("testcase"):
    ok = not any(ch.tag in ("failure", "error", "skipped") for ch in tc)
    if ok:
        got.add(f"{tc.get('classname')}::{tc.get('name')}")
missing = sorted(want - got)
print(f"baseline: {len(want)} stable tests, {len(want & got)} pass now, {len(missing)} missing")
for m in missing[:40]:
    print("  MISSING", m)
sys.exit(1 if missing else 0)
