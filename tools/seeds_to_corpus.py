#!/venv/bin/python
"""Turn the archived seeded changes (/verif/seeded/<ID>-<N>/patch.diff) into self-test corpus entries.

usage: tools/seeds_to_corpus.py <scratch worktree of /repo>      -> writes selftest/seeded_corpus.json
Each patch is applied in the scratch worktree (never in /repo); per touched file the changed line blocks are turned into
(old, new) text edits with just enough context lines for `old` to occur exactly once in the current source.  The entries
are merged into selftest/corpus/<prop>.json by selftest/build_corpus.py, so the thorough tier re-checks - in memory, as
overlays - that every seeded change the checks decide is still reported.  Seeds whose notes say `not_decided` are left out.
"""
import difflib, json, os, subprocess, sys
ROOT = os.path.dirname(os.path.dirname(os.path.abspath(__file__)))
wt = sys.argv[1]
notes = json.load(open(os.path.join(ROOT, "seeded", "notes.json")))
def sh(c): return subprocess.run(c, shell=True, capture_output=True, text=True)
head = sh("git -C /repo rev-parse HEAD").stdout.strip()
sh(f"git -C {wt} checkout -q --detach {head}")
out = {}
skipped = []
items = [("seeded", d) for d in sorted(os.listdir(os.path.join(ROOT, "seeded")))]
if os.path.isdir(os.path.join(ROOT, "benign")):
    items += [("benign", d) for d in sorted(os.listdir(os.path.join(ROOT, "benign")))]
for kind_dir, d in items:
    pd = os.path.join(ROOT, kind_dir, d, "patch.diff")
    if not os.path.isfile(pd):
        continue
    prop = d.split("-")[0]
    if kind_dir == "seeded" and notes.get(d, {}).get("not_decided"):
        continue
    if kind_dir == "benign" and d in json.load(open(os.path.join(ROOT, "benign", "KNOWN_FAIL_CLOSED.json"))):
        continue  # recorded in DESIGN 6.3: these two end fail-closed; they are not benign twins the corpus can demand silence of
    sh(f"git -C {wt} reset -q --hard; git -C {wt} clean -fdq")
    if sh(f"git -C {wt} apply {pd}").returncode != 0:
        skipped.append((d, "patch does not apply")); continue
    files = [f for f in sh(f"git -C {wt} diff --name-only HEAD").stdout.split() if f.endswith(".py")]
    new_files = [f for f in sh(f"git -C {wt} ls-files --others --exclude-standard").stdout.split()]
    if new_files or not files:
        skipped.append((d, "adds files or touches no python file")); sh(f"git -C {wt} reset -q --hard; git -C {wt} clean -fdq"); continue
    fl = []
    ok = True
    for f in files:
        before = sh(f"git -C {wt} show HEAD:{f}").stdout.splitlines(keepends=True)
        after = open(os.path.join(wt, f), encoding="utf-8").read().splitlines(keepends=True)
        btxt = "".join(before)
        blocks = []
        for tag, i1, i2, j1, j2 in difflib.SequenceMatcher(None, before, after, autojunk=False).get_opcodes():
            if tag == "equal":
                continue
            k = 0
            while True:
                a, b = max(0, i1 - k), min(len(before), i2 + k)
                old = "".join(before[a:b])
                if old.strip() and btxt.count(old) == 1:
                    break
                k += 1
                if k > 60:
                    ok = False; break
            if not ok:
                break
            blocks.append([a, b, j1 - (i1 - a), j2 + (b - i2)])
        if not ok:
            break
        # merge overlapping blocks
        blocks.sort()
        merged = []
        for blk in blocks:
            if merged and blk[0] < merged[-1][1]:
                merged[-1][1] = max(merged[-1][1], blk[1]); merged[-1][3] = max(merged[-1][3], blk[3])
            else:
                merged.append(blk)
        edits = [{"old": "".join(before[a:b]), "new": "".join(after[c:e])} for a, b, c, e in merged]
        # verify: applying the edits reproduces the patched file
        t = btxt
        for e in edits:
            if t.count(e["old"]) != 1:
                ok = False
            t = t.replace(e["old"], e["new"])
        if t != "".join(after):
            ok = False
        fl.append({"file": f, "edits": edits})
    sh(f"git -C {wt} reset -q --hard; git -C {wt} clean -fdq")
    if not ok:
        skipped.append((d, "edits do not reproduce the patch")); continue
    meta = json.load(open(os.path.join(ROOT, kind_dir, d, "meta.json")))
    if kind_dir == "seeded":
        out.setdefault(prop, []).append({"id": f"seeded-{d}", "kind": "break", "file": fl[0]["file"], "files": fl, "rule": None,
                                         "what": (meta.get("summary") or "")[:200]})
    else:
        # a behaviour-preserving refactoring must leave EVERY check silent: it becomes a benign twin of every property
        for i in range(1, 21):
            out.setdefault(f"C{i:02d}", []).append({"id": f"refactoring-{d}", "kind": "benign", "file": fl[0]["file"], "files": fl, "rule": None,
                                                    "what": (meta.get("summary") or "")[:200]})
json.dump(out, open(os.path.join(ROOT, "selftest", "seeded_corpus.json"), "w"), indent=1)
print("entries:", sum(len(v) for v in out.values()), "skipped:", skipped)
