"""Format-insensitivity self-test: every file is replaced (in memory) by ast.unparse(ast.parse(src)) - comments gone, lines moved,
quotes/parentheses normalised - and all 20 checks must give the same verdicts as on the real tree.  python tools/roundtrip_check.py"""
import ast, os, sys, importlib, json
sys.path.insert(0,'/verif')
from sa.index import Index, AnalysisError
from sa.report import Ctx, load_known
repo='/repo'
overlay={}
for d,_,fs in os.walk(os.path.join(repo,'src/primaite')):
    for f in fs:
        if f.endswith('.py'):
            p=os.path.join(d,f); rel=os.path.relpath(p,repo)
            overlay[rel]=ast.unparse(ast.parse(open(p).read()))
known={(f['property'],f['rule'],f['key']) for f in load_known()['findings'] if f.get('status')=='known'}
for i in range(1,21):
    prop=f"C{i:02d}"
    try:
        ix=Index(repo, overlay=overlay); ctx=Ctx(prop,'rt',ix)
        importlib.import_module(f"sa.rules.{prop.lower()}").check(ctx)
        new=[x for x in ctx.instances if not x.ok and (prop,x.rule,x.key) not in known]
        print(prop, len(ctx.instances), "new failing:", len(new), [ (x.rule, x.key.split('::',1)[1][:70]) for x in new][:3])
    except AnalysisError as e:
        print(prop, "ANALYSIS-ERROR", str(e)[:200])
