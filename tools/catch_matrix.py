#!/venv/bin/python
"""Print the seeded-change catch matrix (markdown) from seeded/results.json + seeded/notes.json."""
import json, os
ROOT = os.path.dirname(os.path.dirname(os.path.abspath(__file__)))
res = json.load(open(os.path.join(ROOT, "seeded/results.json")))
notes = json.load(open(os.path.join(ROOT, "seeded/notes.json")))
print("| change | what was changed | first run | now | rule that fires now / rule added because of it |")
print("|---|---|---|---|---|")
tot = {"caught": 0, "fail-closed": 0, "missed": 0}
first = {"caught": 0, "fail-closed": 0, "missed": 0}
for sid in sorted(res):
    r = res[sid]; n = notes.get(sid, {})
    chk = r["checks"][r["property"]]
    rule = chk["first"].split(" [")[0].split(": ")[-1] if chk.get("first") else (chk.get("analysis_error") or "")[:60]
    out = r["outcome"]
    tot[out if out in tot else "caught"] += 1
    f = n.get("first", "?"); first[f] = first.get(f, 0) + 1
    summ = r.get("summary", "")[:110].replace("|", "/")
    print(f"| {sid} | {summ} | {f} | {out} | {rule}{' - added: ' + n['added'] if n.get('added') else ''} |")
print()
print(f"first run: {first}; now: {tot}")
