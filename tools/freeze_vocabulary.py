#!/venv/bin/python
"""Freeze the names of all functions and methods of /repo's current tree into sa/vocabulary.json.

The normal form (sa/normalform.py) splices a private helper into its callers only when its name is NOT in this vocabulary (and
not named by a rule): helpers that existed when the rules were written are part of the program the rules were confirmed against;
a helper that appears later ("extract method") is presented inlined.  Re-run after an intended change of /repo's structure."""
import ast, json, os, subprocess, sys
ROOT = os.path.dirname(os.path.dirname(os.path.abspath(__file__)))
repo = sys.argv[1] if len(sys.argv) > 1 else "/repo"
names = set()
for d, _, fs in os.walk(os.path.join(repo, "src/primaite")):
    for f in fs:
        if f.endswith(".py"):
            t = ast.parse(open(os.path.join(d, f), encoding="utf-8").read())
            for n in ast.walk(t):
                if isinstance(n, (ast.FunctionDef, ast.AsyncFunctionDef)):
                    names.add(n.name)
            # module-level and class-level assigned names (constants, registries)
            for scope in [t] + [c for c in ast.walk(t) if isinstance(c, ast.ClassDef)]:
                for st in scope.body:
                    tg = st.targets if isinstance(st, ast.Assign) else ([st.target] if isinstance(st, (ast.AnnAssign, ast.AugAssign)) else [])
                    for x in tg:
                        for y in ast.walk(x):
                            if isinstance(y, ast.Name):
                                names.add(y.id)
# per-class method bodies (docstring dropped), so that a pure rename of a method the rules know can be recognised and undone
import hashlib
def _h(fn):
    body = [st for st in fn.body if not (isinstance(st, ast.Expr) and isinstance(st.value, ast.Constant) and isinstance(st.value.value, str))]
    return hashlib.sha1((ast.dump(fn.args) + "|" + "|".join(ast.dump(b) for b in body)).encode()).hexdigest()[:16]
bodies = {}
for d, _, fs in os.walk(os.path.join(repo, "src/primaite")):
    for f in fs:
        if f.endswith(".py"):
            t = ast.parse(open(os.path.join(d, f), encoding="utf-8").read())
            for c in ast.walk(t):
                if isinstance(c, ast.ClassDef):
                    for m in c.body:
                        if isinstance(m, (ast.FunctionDef, ast.AsyncFunctionDef)):
                            bodies[f"{c.name}.{m.name}"] = _h(m)
head = subprocess.check_output(["git", "-C", repo, "rev-parse", "--short", "HEAD"], text=True).strip()
json.dump({"reference": head, "functions": sorted(names), "method_bodies": dict(sorted(bodies.items()))}, open(os.path.join(ROOT, "sa", "vocabulary.json"), "w"), indent=0)
print(len(names), "names frozen at", head)
