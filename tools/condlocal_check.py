"""Condition-in-a-local insensitivity self-test: every `if <expr>:` whose test is not a bare name becomes
`_cN = <expr>` / `if _cN:` - in memory - and all 20 checks must give the same verdicts.  python tools/condlocal_check.py"""
import ast, os, sys, importlib
from collections import Counter
sys.path.insert(0, '/verif')
from sa.index import Index, AnalysisError
from sa.report import Ctx, load_known
repo = '/repo'
N = [0]


def bind(body):
    out = []
    for st in body:
        for fld in ("body", "orelse", "finalbody"):
            v = getattr(st, fld, None)
            if isinstance(v, list) and v and isinstance(v[0], ast.stmt):
                setattr(st, fld, bind(v))
        if isinstance(st, ast.Try):
            for h in st.handlers:
                h.body = bind(h.body)
        if isinstance(st, ast.If) and not isinstance(st.test, ast.Name) and not any(isinstance(x, (ast.NamedExpr, ast.Await, ast.Yield)) for x in ast.walk(st.test)):
            N[0] += 1
            nm = f"_c{N[0]}"
            out.append(ast.copy_location(ast.Assign(targets=[ast.Name(id=nm, ctx=ast.Store())], value=st.test), st))
            st.test = ast.copy_location(ast.Name(id=nm, ctx=ast.Load()), st.test)
        out.append(st)
    return out


overlay = {}
for d, _, fs in os.walk(os.path.join(repo, 'src/primaite')):
    for f in fs:
        if f.endswith('.py'):
            p = os.path.join(d, f); rel = os.path.relpath(p, repo)
            t = ast.parse(open(p).read())
            for n in ast.walk(t):
                if isinstance(n, (ast.FunctionDef, ast.AsyncFunctionDef)):
                    n.body = bind(n.body)
            ast.fix_missing_locations(t)
            src = ast.unparse(t); compile(src, rel, "exec"); overlay[rel] = src
print(f"{N[0]} conditions bound to a local first")
known = {(f['property'], f['rule'], f['key']) for f in load_known()['findings'] if f.get('status') == 'known'}
rc = 0
only = sys.argv[1:]
for i in range(1, 21):
    prop = f"C{i:02d}"
    if only and prop not in only:
        continue
    try:
        mod = importlib.import_module(f"sa.rules.{prop.lower()}")
        ctx0 = Ctx(prop, 'rt', Index(repo)); mod.check(ctx0)
        ctx = Ctx(prop, 'rt', Index(repo, overlay=overlay)); mod.check(ctx)
        c0 = Counter((x.rule, x.ok) for x in ctx0.instances); c1 = Counter((x.rule, x.ok) for x in ctx.instances)
        diff = {f"{r}/{'ok' if ok else 'fail'}": (c0[(r, ok)], c1[(r, ok)]) for (r, ok) in set(c0) | set(c1) if c0[(r, ok)] != c1[(r, ok)]}
        f0 = {(x.rule) for x in ctx0.instances if not x.ok}
        nf0 = sum(1 for x in ctx0.instances if not x.ok); nf1 = sum(1 for x in ctx.instances if not x.ok)
        newf = [x for x in ctx.instances if not x.ok and (prop, x.rule, x.key) not in known and (x.rule, x.key) not in {(y.rule, y.key) for y in ctx0.instances if not y.ok}]
        print(prop, len(ctx.instances), "new failing:", len(newf), [(x.rule, x.key.split('::', 1)[1][:80]) for x in newf][:4], "| count diffs:", diff)
        rc |= bool(newf)
    except AnalysisError as e:
        print(prop, "ANALYSIS-ERROR", str(e)[:300]); rc = 1
sys.exit(rc)
