"""Name-insensitivity self-test: in every function, every purely local variable (bound by assignment / for / with / walrus /
comprehension inside the function; not a parameter, not global/nonlocal, not bound by except-as or import, not a parameter of
a nested function) is renamed to <name>_zq - in memory - and all 20 checks must give the same verdicts as on the real tree.
A rule that recognises its construct by the *name of a local* would fire here; known findings whose key contains a renamed
local are matched after undoing the suffix.   python tools/rename_check.py"""
import ast, os, sys, importlib
sys.path.insert(0, '/verif')
from sa.index import Index, AnalysisError
from sa.report import Ctx, load_known
repo = '/repo'
SUF = "_zq"


def local_names(fn):
    params = set()
    for f in ast.walk(fn):
        if isinstance(f, (ast.FunctionDef, ast.AsyncFunctionDef, ast.Lambda)):
            a = f.args
            for x in a.posonlyargs + a.args + a.kwonlyargs + ([a.vararg] if a.vararg else []) + ([a.kwarg] if a.kwarg else []):
                params.add(x.arg)
    excl = set(params)
    stores = set()
    for n in ast.walk(fn):
        if isinstance(n, (ast.Global, ast.Nonlocal)):
            excl |= set(n.names)
        elif isinstance(n, ast.ExceptHandler) and n.name:
            excl.add(n.name)
        elif isinstance(n, (ast.Import, ast.ImportFrom)):
            for al in n.names:
                excl.add((al.asname or al.name).split(".")[0])
        elif isinstance(n, (ast.FunctionDef, ast.AsyncFunctionDef, ast.ClassDef)) and n is not fn:
            excl.add(n.name)
        elif isinstance(n, ast.Name) and isinstance(n.ctx, ast.Store):
            stores.add(n.id)
        elif isinstance(n, ast.MatchAs) and n.name:
            excl.add(n.name)
    return {s for s in stores - excl if not s.startswith("__")}


class Ren(ast.NodeTransformer):
    def __init__(self, names):
        self.names = names

    def visit_Name(self, node):
        if node.id in self.names:
            return ast.copy_location(ast.Name(id=node.id + SUF, ctx=node.ctx), node)
        return node


def transform(src):
    tree = ast.parse(src)
    # outermost functions only (module level and methods); nested ones are handled as part of their parent
    def visit(body):
        for i, st in enumerate(body):
            if isinstance(st, (ast.FunctionDef, ast.AsyncFunctionDef)):
                names = local_names(st)
                if names:
                    body[i] = Ren(names).visit(st)
            elif isinstance(st, ast.ClassDef):
                visit(st.body)
    visit(tree.body)
    ast.fix_missing_locations(tree)
    return ast.unparse(tree)


overlay = {}
nren = 0
for d, _, fs in os.walk(os.path.join(repo, 'src/primaite')):
    for f in fs:
        if f.endswith('.py'):
            p = os.path.join(d, f); rel = os.path.relpath(p, repo)
            src = open(p).read()
            try:
                out = transform(src)
                compile(out, rel, "exec")
                overlay[rel] = out
                nren += out.count(SUF)
            except Exception as e:  # noqa
                print("skip", rel, e)
print(f"{len(overlay)} modules rewritten, {nren} renamed occurrences")
known = {(f['property'], f['rule'], f['key'].replace(SUF, "")) for f in load_known()['findings'] if f.get('status') == 'known'}
rc = 0
only = sys.argv[1:]
for i in range(1, 21):
    prop = f"C{i:02d}"
    if only and prop not in only:
        continue
    try:
        ix = Index(repo, overlay=overlay); ctx = Ctx(prop, 'rt', ix)
        importlib.import_module(f"sa.rules.{prop.lower()}").check(ctx)
        new = [x for x in ctx.instances if not x.ok and (prop, x.rule, x.key.replace(SUF, "")) not in known]
        # the same obligations must have been examined: compare with the real tree, instance by instance
        ix0 = Index(repo); ctx0 = Ctx(prop, 'rt', ix0)
        importlib.import_module(f"sa.rules.{prop.lower()}").check(ctx0)
        from collections import Counter
        c0 = Counter((x.rule, x.ok) for x in ctx0.instances)
        c1 = Counter((x.rule, x.ok) for x in ctx.instances)
        diff = {f"{r}/{'ok' if ok else 'fail'}": (c0[(r, ok)], c1[(r, ok)]) for (r, ok) in set(c0) | set(c1) if c0[(r, ok)] != c1[(r, ok)]}
        lost = gained = []
        print(prop, len(ctx.instances), "new failing:", len(new), [(x.rule, x.key.split('::', 1)[1][:90]) for x in new][:4],
              "| per-rule instance counts that differ (real, renamed):", diff)
        lost = list(diff)
        rc |= bool(new) or bool(lost) or bool(gained)
    except AnalysisError as e:
        print(prop, "ANALYSIS-ERROR", str(e)[:300]); rc = 1
sys.exit(rc)
