#!/venv/bin/python
"""Apply every archived behaviour-preserving refactoring (/verif/benign/<id>/patch.diff) to a scratch worktree of /repo and run ALL 20
quick checks against it: every one must exit 0.  usage: tools/run_benign.py <scratch worktree> [ID ...]; writes benign/results.json."""
import json, os, subprocess, sys
from concurrent.futures import ThreadPoolExecutor
ROOT = os.path.dirname(os.path.dirname(os.path.abspath(__file__)))
wt = sys.argv[1]
ids = sys.argv[2:] or sorted(d for d in os.listdir(os.path.join(ROOT, "benign")) if os.path.isdir(os.path.join(ROOT, "benign", d)))
def sh(c): return subprocess.run(c, shell=True, capture_output=True, text=True)
sh(f"git -C {wt} checkout -q --detach $(git -C /repo rev-parse HEAD)")
props = [f"C{i:02d}" for i in range(1, 21)]
res = {}
bad = 0
for sid in ids:
    sh(f"git -C {wt} reset -q --hard; git -C {wt} clean -fdq")
    if sh(f"git -C {wt} apply {ROOT}/benign/{sid}/patch.diff").returncode != 0:
        res[sid] = {"outcome": "patch does not apply"}; print(sid, "PATCH-DOES-NOT-APPLY"); bad += 1; continue
    def run(p):
        r = subprocess.run([os.path.join(ROOT, "check"), p, "--repo", wt], capture_output=True, text=True, cwd=ROOT)
        return p, r.returncode, [l for l in r.stdout.splitlines() if l.startswith(("VIOLATION", "ANALYSIS-ERROR"))][:2]
    with ThreadPoolExecutor(max_workers=8) as ex:
        rows = list(ex.map(run, props))
    alarms = {p: {"exit": rc, "lines": ls} for p, rc, ls in rows if rc != 0}
    res[sid] = {"outcome": "silent" if not alarms else "alarm", "alarms": alarms}
    bad += bool(alarms)
    print(f"{sid:10s} {'all 20 checks silent' if not alarms else 'ALARM ' + str(alarms)[:200]}", flush=True)
sh(f"git -C {wt} reset -q --hard; git -C {wt} clean -fdq")
json.dump(res, open(os.path.join(ROOT, "benign", "results.json"), "w"), indent=1)
print(f"{len(ids) - bad} of {len(ids)} refactorings leave all 20 checks silent")
sys.exit(1 if bad else 0)
