"""Guard-clause insensitivity self-test: `if c: ...return/raise/continue/break` followed by more statements in the same block
becomes `if c: ... else: <the following statements>` - in memory - and all 20 checks must give the same verdicts and per-rule
instance counts.  python tools/guardelse_check.py"""
import ast, os, sys, importlib
from collections import Counter
sys.path.insert(0, '/verif')
from sa.index import Index, AnalysisError
from sa.report import Ctx, load_known
repo = '/repo'
N = [0]
TERM = (ast.Return, ast.Raise, ast.Continue, ast.Break)


def fold(body):
    out = []
    i = 0
    while i < len(body):
        st = body[i]
        for fld in ("body", "orelse", "finalbody"):
            if hasattr(st, fld) and isinstance(getattr(st, fld), list) and getattr(st, fld) and isinstance(getattr(st, fld)[0], ast.stmt):
                setattr(st, fld, fold(getattr(st, fld)))
        if isinstance(st, ast.Try):
            for h in st.handlers:
                h.body = fold(h.body)
        if isinstance(st, ast.If) and not st.orelse and st.body and isinstance(st.body[-1], TERM) and i + 1 < len(body):
            rest = fold(body[i + 1:])
            st.orelse = rest
            N[0] += 1
            out.append(st)
            return out
        out.append(st)
        i += 1
    return out


overlay = {}
for d, _, fs in os.walk(os.path.join(repo, 'src/primaite')):
    for f in fs:
        if f.endswith('.py'):
            p = os.path.join(d, f); rel = os.path.relpath(p, repo)
            t = ast.parse(open(p).read())
            for n in ast.walk(t):
                if isinstance(n, (ast.FunctionDef, ast.AsyncFunctionDef)):
                    n.body = fold(n.body)
            ast.fix_missing_locations(t)
            src = ast.unparse(t)
            compile(src, rel, "exec")
            overlay[rel] = src
print(f"{N[0]} guard clauses turned into if/else")
known = {(f['property'], f['rule'], f['key']) for f in load_known()['findings'] if f.get('status') == 'known'}
rc = 0
only = sys.argv[1:]
for i in range(1, 21):
    prop = f"C{i:02d}"
    if only and prop not in only:
        continue
    try:
        mod = importlib.import_module(f"sa.rules.{prop.lower()}")
        ctx0 = Ctx(prop, 'rt', Index(repo)); mod.check(ctx0)
        ctx = Ctx(prop, 'rt', Index(repo, overlay=overlay)); mod.check(ctx)
        c0 = Counter((x.rule, x.ok) for x in ctx0.instances); c1 = Counter((x.rule, x.ok) for x in ctx.instances)
        diff = {f"{r}/{'ok' if ok else 'fail'}": (c0[(r, ok)], c1[(r, ok)]) for (r, ok) in set(c0) | set(c1) if c0[(r, ok)] != c1[(r, ok)]}
        f0 = {(x.rule, x.key) for x in ctx0.instances if not x.ok}
        new = [x for x in ctx.instances if not x.ok and (x.rule, x.key) not in f0 and (prop, x.rule, x.key) not in known]
        print(prop, len(ctx.instances), "new failing:", len(new), [(x.rule, x.key.split('::', 1)[1][:80]) for x in new][:4], "| count diffs:", diff)
        rc |= bool(new)
    except AnalysisError as e:
        print(prop, "ANALYSIS-ERROR", str(e)[:300]); rc = 1
sys.exit(rc)
