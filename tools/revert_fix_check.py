#!/venv/bin/python
"""For every `fixed:` entry of known_findings.json: revert that one commit in a scratch worktree of /repo (git revert
--no-commit), run the property's quick check against the worktree, expect VIOLATION (exit 1).  Nothing in /repo changes.
usage: tools/revert_fix_check.py <scratch worktree dir (outside /repo and /verif; created if missing, removed at the end)>"""
import json, os, subprocess, sys
ROOT = os.path.dirname(os.path.dirname(os.path.abspath(__file__)))
wt = sys.argv[1]
def sh(c): return subprocess.run(c, shell=True, capture_output=True, text=True)
head = sh("git -C /repo rev-parse HEAD").stdout.strip()
created = not os.path.isdir(wt)
if created:
    sh(f"git -C /repo worktree add --detach {wt} {head}")
kf = json.load(open(os.path.join(ROOT, "known_findings.json")))
rows = []
for f in kf["findings"]:
    if f.get("status") != "fixed":
        continue
    c, prop = f["commit"], f["property"]
    sh(f"git -C {wt} checkout -q --detach {head}; git -C {wt} reset -q --hard; git -C {wt} clean -fdq")
    r = sh(f"git -C {wt} revert --no-commit {c}")
    if r.returncode != 0:
        sh(f"git -C {wt} revert --abort; git -C {wt} reset -q --hard")
        rows.append((prop, c, "revert-conflict", "")); print(prop, c, "REVERT-CONFLICT"); continue
    k = sh(f"cd {ROOT} && ./check {prop} --repo {wt}")
    first = next((l.strip()[:160] for l in k.stdout.splitlines() if l.strip().startswith("src/")), "")
    out = {0: "MISSED", 1: "caught", 2: "fail-closed"}.get(k.returncode, str(k.returncode))
    rows.append((prop, c, out, first)); print(f"{prop} {c} {out:11s} {first}")
    sh(f"git -C {wt} revert --abort; git -C {wt} reset -q --hard")
sh(f"git -C {wt} reset -q --hard; git -C {wt} clean -fdq")
if created:
    sh(f"git -C /repo worktree remove --force {wt}")
for p in sorted({r[0] for r in rows}):
    sh(f"cd {ROOT} && ./check {p}")  # restore evidence of the unchanged tree
bad = [r for r in rows if r[2] not in ("caught",)]
print(f"{len(rows)} fixes reverted one at a time: {len(rows) - len(bad)} caught, {len(bad)} not: {[(r[0], r[1], r[2]) for r in bad]}")
sys.exit(1 if any(r[2] == "MISSED" for r in rows) else 0)
