#!/venv/bin/python
"""Copy confirmed behaviour-preserving refactorings into /verif/benign/<ID>-<N>/ (patch.diff regenerated against /repo's HEAD, meta.json).

usage: tools/archive_benign.py <benign_out dir> <confirm dir> <scratch worktree> [suffix]
Kept only when the confirmation record says the patch applies and the 526-test baseline stays green with it."""
import json, os, subprocess, sys
src, conf, wt = sys.argv[1:4]
suffix = sys.argv[4] if len(sys.argv) > 4 else ""
ROOT = os.path.dirname(os.path.dirname(os.path.abspath(__file__)))
head = subprocess.check_output(["git", "-C", "/repo", "rev-parse", "--short", "HEAD"], text=True).strip()
def sh(c): return subprocess.run(c, shell=True, capture_output=True, text=True)
kept = skipped = 0
for f in sorted(os.listdir(conf)):
    if not f.endswith(".json"): continue
    r = json.load(open(os.path.join(conf, f)))
    sid = r["seed"]; pid, n = sid.split("/")
    if not (r.get("applies") and r.get("baseline_ok")):
        print("NOT KEPT", sid, r.get("applies"), r.get("baseline_ok")); skipped += 1; continue
    d = os.path.join(ROOT, "benign", f"{pid}-{n}{suffix}")
    os.makedirs(d, exist_ok=True)
    sh(f"git -C {wt} checkout -q --detach $(git -C /repo rev-parse HEAD); git -C {wt} reset -q --hard; git -C {wt} clean -fdq")
    if sh(f"git -C {wt} apply --3way {src}/{sid}/patch.diff").returncode != 0:
        print("PATCH FAILED", sid); skipped += 1; continue
    open(os.path.join(d, "patch.diff"), "w").write(sh(f"git -C {wt} diff HEAD").stdout)
    sh(f"git -C {wt} reset -q --hard")
    meta = json.load(open(os.path.join(src, sid, "meta.json")))
    meta["origin"] = "independent sub-agent given only the property text and a scratch worktree; asked for a behaviour-preserving refactoring of the code that carries the property"
    meta["confirmed"] = {"against": head, "baseline_on_patched_tree": (r.get("baseline") or "").splitlines()[0] if r.get("baseline") else ""}
    json.dump(meta, open(os.path.join(d, "meta.json"), "w"), indent=1)
    kept += 1
print(f"kept {kept}, not kept {skipped}")
